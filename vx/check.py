#!/usr/bin/env python3
"""check.py <property-id> [quick|thorough]  -- decide one property (DESIGN.md 2.5).

exit 0  all obligations discharged (or only KNOWN-FINDINGs failed)
exit 1  VIOLATION property=<id> replay=<path>
exit 2  UNDECIDED (lost anchor, unsupported construct, rlimit, tool failure) - never an alarm
"""
import sys, os, json, re, subprocess, time, hashlib, shutil, glob

HERE = os.path.dirname(os.path.abspath(__file__))
VERIF = os.path.dirname(HERE)
REPO = os.environ.get("LUMINA_REPO", "/repo")
WORK = os.path.join(VERIF, "work")
EVID = os.path.join(VERIF, "evidence")
REPLAY = os.path.join(EVID, "replay")
KANI_TARGET = os.environ.get("LUMINA_VERIF_TARGET", "/var/tmp/lumina-verif")

VERIF_KINDS = [
    ("postcondition not satisfied", "postcondition"),
    ("precondition not satisfied", "precondition"),
    ("assertion failed", "assertion"),
    ("possible arithmetic underflow/overflow", "overflow"),
    ("possible bit shift underflow/overflow", "shift-overflow"),
    ("possible division by zero", "div-by-zero"),
    ("invariant not satisfied at end of loop body", "invariant-end"),
    ("invariant not satisfied before loop", "invariant-entry"),
    ("loop invariant", "invariant"),
    ("decreases not satisfied", "decreases"),
    ("could not prove termination", "decreases"),
    ("unable to prove assertion safety condition", "assertion"),
    ("unable to prove post-condition of closure", "postcondition"),
    ("unable to prove pre-condition of closure", "precondition"),
    ("constructed value may fail to meet its declared type invariant", "type-invariant"),
]
UNDECIDED_PAT = ["Resource limit (rlimit) exceeded", "rlimit", "timed out", "not supported", "unsupported"]

def sh(cmd, **kw):
    return subprocess.run(cmd, capture_output=True, text=True, **kw)

def load_props():
    return json.load(open(os.path.join(HERE, "props.json")))

BASELINE = os.path.join(VERIF, "baseline", "fn_hashes.json")
def load_baseline():
    if os.path.exists(BASELINE):
        return json.load(open(BASELINE))
    return {}

def rebaseline():
    """record, on the unchanged tree, the hash of every extracted function / constant per unit (used to tell a changed
    function from solver instability: an UNCHANGED function whose obligations fail is never reported as a violation)"""
    props = load_props()
    units = sorted(set(u for c in props.values() for u in c.get("units", [])))
    out = {}
    for unit in units:
        tpl = os.path.join(VERIF, "specs", unit + ".rs")
        gen, mp = os.path.join(WORK, unit + "_bl.rs"), os.path.join(WORK, unit + "_bl.map.json")
        r = sh(["python3", os.path.join(HERE, "vx.py"), tpl, REPO, gen, mp])
        if r.returncode != 0:
            print("rebaseline: unit", unit, "failed:", r.stdout); continue
        m = json.load(open(mp))
        out[unit] = {"fns": {fd["fn"]: fd["sha256"] for fd in m["functions"]},
                     "consts": hashlib.sha256(json.dumps(sorted((x["fn"], x.get("after", "")) for x in m["rewrites"] if x.get("fn", "").startswith("const "))).encode()).hexdigest()}
    os.makedirs(os.path.dirname(BASELINE), exist_ok=True)
    json.dump(out, open(BASELINE, "w"), indent=1, sort_keys=True)
    print("baseline written for units:", ", ".join(out))

def load_known():
    p = os.path.join(VERIF, "known-findings.json")
    if os.path.exists(p):
        return json.load(open(p))
    return {"findings": []}

# --------------------------------------------------------------------------------------
# Verus units
# --------------------------------------------------------------------------------------
def scan_trusted(gen_text):
    """mechanical scan of the generated file for everything that is assumed, not proved"""
    tb = []
    for m in re.finditer(r"assume_specification(?:<[^>]*>)?\s*\[\s*([^\]]+?)\s*\]", gen_text):
        tb.append("assume_specification " + " ".join(m.group(1).split()))
    for m in re.finditer(r"#\[verifier::external_body\]\s*(?:pub\s+)?(?:async\s+)?(?:proof\s+|exec\s+)?fn\s+([A-Za-z0-9_]+)", gen_text):
        tb.append("external_body fn " + m.group(1))
    for m in re.finditer(r"#\[verifier::external_body\]\s*(?:pub\s+)?(struct|enum)\s+([A-Za-z0-9_]+)", gen_text):
        tb.append(f"opaque {m.group(1)} {m.group(2)}")
    for m in re.finditer(r"#\[verifier::external_type_specification\][^;{]*?struct\s+([A-Za-z0-9_]+)", gen_text):
        tb.append("external type " + m.group(1))
    for m in re.finditer(r"\b(?:pub\s+)?(?:broadcast\s+)?(?:proof\s+fn|axiom\s+fn)\s+(axiom_[A-Za-z0-9_]+)", gen_text):
        tb.append("axiom " + m.group(1))
    for m in re.finditer(r"\buninterp\s+spec\s+fn\s+([A-Za-z0-9_]+)", gen_text):
        tb.append("uninterpreted spec fn " + m.group(1))
    n_assume = len(re.findall(r"\bassume\s*\(", gen_text))
    n_admit = len(re.findall(r"\badmit\s*\(", gen_text))
    if n_assume: tb.append(f"{n_assume} assume(..) statements")
    if n_admit: tb.append(f"{n_admit} admit() statements")
    n_nodec = len(re.findall(r"exec_allows_no_decreases_clause", gen_text))
    if n_nodec: tb.append(f"{n_nodec} functions/loops without termination proof (exec_allows_no_decreases_clause)")
    return sorted(set(tb))

def parse_verus_stderr(err):
    """split rustc-style diagnostics into blocks: {level,msg,locs:[(file,line,col)],text}"""
    blocks, cur = [], None
    for ln in err.split("\n"):
        m = re.match(r"^(error|warning|note)(?:\[[A-Z0-9]+\])?: (.*)$", ln)
        if m:
            cur = {"level": m.group(1), "msg": m.group(2), "locs": [], "text": [ln]}
            blocks.append(cur)
            continue
        if cur is None:
            continue
        cur["text"].append(ln)
        m = re.match(r"^\s*(?:-->|:::)\s+(.*?):(\d+):(\d+)\s*$", ln)
        if m:
            cur["locs"].append((m.group(1), int(m.group(2)), int(m.group(3))))
            cur["file"] = m.group(1)
        m = re.match(r"^\s*(\d+)\s*\|", ln)
        if m and cur.get("file"):
            cur.setdefault("gutter", []).append((cur["file"], int(m.group(1)), 0))
    return blocks

def classify(msg):
    for pat, kind in VERIF_KINDS:
        if pat in msg:
            return kind
    return None

def run_unit(unit, extra_roots=None, variant=None, rlimit=None, seed=None, tag=""):
    """vx + verus on one unit. returns dict(status: ok|fail|undecided, ...)"""
    os.makedirs(WORK, exist_ok=True)
    tpl = os.path.join(VERIF, "specs", unit + ".rs")
    base = os.path.join(WORK, unit + tag)
    gen, mp = base + ".rs", base + ".map.json"
    roots = REPO if not extra_roots else extra_roots + ":" + REPO
    cmd = ["python3", os.path.join(HERE, "vx.py"), tpl, roots, gen, mp]
    if variant:
        cmd += ["--" + variant]
    r = sh(cmd)
    if r.returncode != 0:
        return {"status": "undecided", "reason": (r.stdout + r.stderr).strip(), "unit": unit}
    gen_text = open(gen).read()
    m = json.load(open(mp))
    vcmd = ["verus", gen, "--output-json", "--time", "--multiple-errors", "5", "--triggers-mode", "silent"]
    if rlimit: vcmd += ["--rlimit", str(rlimit)]
    if seed: vcmd += ["--smt-option", f"smt.random_seed={seed}"]
    key = hashlib.sha256((gen_text + " ".join(vcmd[2:])).encode()).hexdigest()
    cdir = os.path.join(WORK, "cache"); os.makedirs(cdir, exist_ok=True)
    cfile = os.path.join(cdir, key + ".json")
    t0 = time.time()
    cached = False
    # a verdict for byte-identical generated text and identical verus arguments is reused for 20 minutes (checks of
    # properties that share a unit run back to back); VERIF_NOCACHE=1 disables it
    if os.path.exists(cfile) and not os.environ.get("VERIF_NOCACHE") and time.time() - os.path.getmtime(cfile) < 1200:
        c = json.load(open(cfile)); out, err, rc = c["out"], c["err"], c["rc"]; cached = True
    else:
        r = sh(vcmd, cwd=WORK)
        out, err, rc = r.stdout, r.stderr, r.returncode
        if '"verification-results"' in out and '"verified"' in out:
            json.dump({"out": out, "err": err, "rc": rc}, open(cfile, "w"))
    wall = time.time() - t0
    res = {"unit": unit, "gen": gen, "map": m, "cmd": " ".join(vcmd), "wall": wall, "cached": cached, "trusted": scan_trusted(gen_text),
           "stderr": err, "gen_text": gen_text}
    try:
        j = json.loads(out)
    except Exception:
        res.update(status="undecided", reason="verus produced no JSON: " + err[-1500:])
        return res
    vr = j.get("verification-results", {})
    res["verified"], res["errors"] = vr.get("verified", 0), vr.get("errors", 0)
    fb = []
    try:
        for mt in j["times-ms"]["smt"]["smt-run-module-times"]:
            fb += mt.get("function-breakdown", [])
    except Exception:
        pass
    res["breakdown"] = fb
    res["smt_ms"] = j.get("times-ms", {}).get("smt", {}).get("total", 0)
    blocks = parse_verus_stderr(err)
    fails, hard = [], []
    lines = gen_text.split("\n")
    for b in blocks:
        if b["level"] != "error":
            continue
        if b["msg"].startswith("aborting due to"):
            continue
        kind = classify(b["msg"])
        if kind is None:
            hard.append(b); continue
        # attribute to a function: first location inside some extracted function, else lemma by name lookup
        fn, repo_loc, clause = None, None, None
        for (f, ln, col) in b["locs"]:
            if 1 <= ln <= len(lines) and clause is None:
                # the whole clause: from the reported line until brackets balance and the clause ends
                acc, depth, k = [], 0, ln - 1
                while k < len(lines) and len(acc) < 14:
                    t = lines[k].strip()
                    acc.append(t)
                    depth += sum(t.count(c) for c in "([{") - sum(t.count(c) for c in ")]}")
                    if depth <= 0 and (t.endswith(",") or t.endswith(";") or t.endswith("{") or t.endswith("}") or t.endswith(")")):
                        break
                    k += 1
                clause = " ".join(acc)
                # clause-level property tag: a `// [props: Cxx Cyy]` comment directly above the clause
                k = ln - 2
                while k >= 0 and lines[k].strip().startswith("//"):
                    mt = re.search(r"\[props:\s*([^\]]+)\]", lines[k])
                    if mt:
                        b["clause_props"] = mt.group(1).split(); break
                    k -= 1
        for (f, ln, col) in b["locs"] + b.get("gutter", []):
            for fd in m["functions"]:
                if fd["gen_lines"][0] <= ln <= fd["gen_lines"][1]:
                    fn = fd["fn"]
                    lm = m["linemap"][ln - 1]
                    if lm: repo_loc = f"{lm[0]}:{lm[1]}"
                    break
            if fn: break
        if fn is None:
            # inside a lemma / proof fn: find enclosing `fn name` by scanning upwards
            for (f, ln, col) in b["locs"]:
                k = ln - 1
                while k >= 0:
                    mm = re.search(r"\bfn\s+([A-Za-z0-9_]+)", lines[k])
                    if mm:
                        fn = "proof:" + mm.group(1); break
                    k -= 1
                if fn: break
        fails.append({"fn": fn, "kind": kind, "msg": b["msg"], "clause": clause, "repo": repo_loc, "text": "\n".join(b["text"][:40]), "clause_props": b.get("clause_props")})
    # resource-limit hits are per function: they make THAT function undecided, not the clean failures of other functions
    rl = [b for b in hard if "rlimit" in b["msg"].lower() or "resource limit" in b["msg"].lower()]
    hard = [b for b in hard if b not in rl]
    rl_fns = []
    for b in rl:
        fnn = None
        for (f_, ln, col) in b["locs"] + b.get("gutter", []):
            for fd in m["functions"]:
                if fd["gen_lines"][0] <= ln <= fd["gen_lines"][1]:
                    fnn = fd["fn"]; break
            if fnn: break
        rl_fns.append(fnn or "proof:?")
    res["rlimit_fns"] = rl_fns
    res["fails"], res["hard"] = fails, hard
    if rl and not fails and not hard:
        res.update(status="undecided", reason="rlimit exceeded in " + ", ".join(sorted(set(rl_fns)))); return res
    if hard or vr.get("encountered-vir-error") or (vr.get("encountered-error") and not fails):
        res.update(status="undecided", reason="verus front-end error: " + "\n".join("\n".join(b["text"][:12]) for b in hard[:3])[:3000]); return res
    if not vr:
        res.update(status="undecided", reason="no verification results"); return res
    res["status"] = "ok" if (vr.get("success") and not fails) else "fail"
    if res["status"] == "fail" and not fails:
        res.update(status="undecided", reason="verus reported failure without classified diagnostics: " + err[-1500:])
    return res

def fn_props(m_fn, unit_serves, tpl_props):
    return tpl_props.get(m_fn, unit_serves)

def template_fn_props(unit):
    """//@props directives: fn -> [props]; read directly from template"""
    tpl = open(os.path.join(VERIF, "specs", unit + ".rs")).read().split("\n")
    res, cur = {}, None
    for ln in tpl:
        s = ln.strip()
        if s.startswith("//@fn "):
            mm = re.match(r"^//@fn\s+(.*?)\s*::\s*([A-Za-z_0-9]+)", s)
            cont, name = mm.group(1).strip(), mm.group(2)
            cur = f"{cont} :: {name}" if cont != "-" else name
        elif s.startswith("//@props ") and cur:
            res[cur] = s.split()[1:]
        elif s.startswith("//@end"):
            cur = None
    return res

# --------------------------------------------------------------------------------------
# Kani harnesses
# --------------------------------------------------------------------------------------
def run_kani(pkg, harnesses, unwind_note=None, timeout=1800):
    """runs the listed harnesses of a crate of /repo with the guard on. returns list of per-harness results"""
    env = dict(os.environ)
    env["RUSTFLAGS"] = "--cfg lumina_verif"
    env["LUMINA_VERIF_DIR"] = VERIF
    env["CARGO_NET_OFFLINE"] = "true"
    env["CARGO_TARGET_DIR"] = os.path.join(KANI_TARGET, "kani-" + pkg)
    results = []
    cmd = ["cargo", "kani", "-p", pkg, "-Z", "function-contracts", "-Z", "stubbing", "--output-format", "terse", "-j", "8"]
    for h in harnesses:
        cmd += ["--harness", h]
    t0 = time.time()
    try:
        # own process group: on a time-out the cbmc grandchildren are killed too (they outlive `cargo kani` otherwise)
        pr = subprocess.Popen(cmd, cwd=REPO, env=env, stdout=subprocess.PIPE, stderr=subprocess.PIPE, text=True, start_new_session=True)
        try:
            so, se = pr.communicate(timeout=timeout)
        except subprocess.TimeoutExpired:
            import signal
            try: os.killpg(pr.pid, signal.SIGKILL)
            except Exception: pass
            pr.communicate()
            raise
        r = subprocess.CompletedProcess(cmd, pr.returncode, so, se)
        out = r.stdout + "\n" + r.stderr
    except subprocess.TimeoutExpired as e:
        return {"status": "undecided", "reason": f"kani timeout after {timeout}s", "out": "", "cmd": " ".join(cmd), "wall": time.time() - t0, "per": []}
    wall = time.time() - t0
    per = []
    # terse output: "Checking harness X..." ... "VERIFICATION:- SUCCESSFUL|FAILED"
    cur = None
    by_thread = {}
    for ln in out.split("\n"):
        # with -j N the output is grouped per thread: "Thread 3: Checking harness X..." then "Thread 3: " + result block
        mt = re.match(r"^Thread (\d+): ?(.*)$", ln)
        if mt:
            tid, rest_ = mt.group(1), mt.group(2)
            mm = re.match(r"^Checking harness (\S+?)\.\.\.", rest_)
            if mm:
                by_thread[tid] = {"harness": mm.group(1), "status": None, "checks": 0, "failed": [], "time": None}
                per.append(by_thread[tid]); cur = None
            else:
                cur = by_thread.get(tid)
            continue
        mm = re.match(r"^Checking harness (\S+?)\.\.\.", ln)
        if mm:
            cur = {"harness": mm.group(1), "status": None, "checks": 0, "failed": [], "time": None}
            per.append(cur); continue
        if cur is None: continue
        mm = re.search(r"\*\* (\d+) of (\d+) failed", ln)
        if mm:
            cur["checks"] = int(mm.group(2)); cur["nfailed"] = int(mm.group(1))
        mm = re.match(r"^Failed Checks: (.*)$", ln)
        if mm: cur["failed"].append(mm.group(1))
        mm = re.match(r"^VERIFICATION:- (\w+)", ln)
        if mm: cur["status"] = mm.group(1)
        mm = re.match(r"^Verification Time: ([0-9.]+)s", ln)
        if mm: cur["time"] = float(mm.group(1))
    status = "ok"
    want = set(h.split("::")[-1] for h in harnesses)
    got = set(p["harness"].split("::")[-1] for p in per)
    if r.returncode not in (0, 1) or not per or not want <= got or any(p["status"] is None for p in per):
        status = "undecided"
    elif any(p["status"] != "SUCCESSFUL" for p in per):
        status = "fail"
    return {"status": status, "out": out, "cmd": " ".join(cmd), "wall": wall, "per": per,
            "reason": out[-3000:] if status == "undecided" else ""}

# --------------------------------------------------------------------------------------
def match_known(known, pid, f):
    for k in known.get("findings", []):
        if k.get("status") != "known" or k.get("property") != pid:
            continue
        ob = k.get("obligation", {})
        if ob.get("fn") and ob["fn"] != f.get("fn"): continue
        if ob.get("kind") and ob["kind"] != f.get("kind"): continue
        if ob.get("clause_contains") and ob["clause_contains"] not in (f.get("clause") or ""): continue
        if ob.get("harness") and ob["harness"] != f.get("harness"): continue
        return k
    return None

def slug(s):
    return re.sub(r"[^A-Za-z0-9]+", "_", s or "x").strip("_")[:60]

def main():
    if len(sys.argv) < 2:
        print("usage: check.py <Cxx> [quick|thorough]"); sys.exit(2)
    if sys.argv[1] == "--rebaseline":
        rebaseline(); sys.exit(0)
    if sys.argv[1] == "--replay":
        d = json.load(open(sys.argv[2]))
        print(json.dumps({k: v for k, v in d.items() if k != "witness"}, indent=1)[:6000])
        w = d.get("witness") or {}
        if w.get("found") and w.get("how", "").startswith("cd "):
            print("re-running witness finder on the real code:", w["how"])
            env = dict(os.environ); env["LUMINA_VERIF_DIR"] = VERIF
            r = subprocess.run(w["how"], shell=True, capture_output=True, text=True, env=env)
            mm = re.search(r"(?<!NO-)WITNESS (.*)", r.stdout + r.stderr)
            print("WITNESS " + mm.group(1) if mm else "no witness reproduced")
            sys.exit(1 if mm else 0)
        print("witness:", json.dumps(w)[:2000])
        sys.exit(0)
    pid = sys.argv[1]
    tier = sys.argv[2] if len(sys.argv) > 2 else os.environ.get("VERIF_TIER", "quick")
    seed = int(os.environ.get("VERIF_SEED", "0") or 0)
    props = load_props()
    if pid not in props:
        print(f"UNDECIDED property={pid} not configured"); sys.exit(2)
    cfg = props[pid]
    known = load_known()
    os.makedirs(EVID, exist_ok=True); os.makedirs(REPLAY, exist_ok=True)
    for old in glob.glob(os.path.join(REPLAY, pid + "-*.json")):
        os.remove(old)          # replay files of earlier runs of this property
    t0 = time.time()
    undecided, violations, known_hits = [], [], []
    notes = []
    lost_hint_fns = set()
    skip_canary = set()
    functions, trusted, samples, cmds = [], set(), [], []
    obligations = discharged = 0
    bounded = []
    smt_ms = 0
    unit_results = []
    for unit in cfg.get("units", []):
        r = run_unit(unit, seed=seed if seed else None)
        unit_results.append(r)
        if r["status"] == "undecided":
            # one retry with 10x rlimit for rlimit failures only
            if "rlimit" in r.get("reason", ""):
                r = run_unit(unit, rlimit=100, seed=seed if seed else None)
                unit_results[-1] = r
        if r["status"] == "undecided":
            # the prover cannot decide (lost anchor / unsupported construct / rlimit): fall back to the witness finder on the real code
            wf = cfg.get("witness")
            w = run_witness(wf, pid, {"fn": ""}, None) if wf else None
            skip_canary.add(unit)
            if w and w.get("found"):
                violations.append(("witness-fallback", unit, {"fn": "witness:" + unit, "kind": "witness", "clause": w["input"][:300], "text": "prover undecided: " + r["reason"][:1500], "witness": w}))
            else:
                undecided.append(f"unit {unit}: {r['reason']}" + ("; witness finder found no failing input within its bound" if w else ""))
            continue
        for fnn in r.get("rlimit_fns", []):
            undecided.append(f"unit {unit}: resource limit exceeded while checking {fnn} (undecided for that function)")
        # --- instability guard: a function whose extracted text (and the extracted constants) is byte-identical to the
        # baseline has byte-identical obligations; if they fail now, that is solver instability, never a violation.
        bl = load_baseline().get(unit, {})
        cur_consts = hashlib.sha256(json.dumps(sorted((x["fn"], x.get("after", "")) for x in r["map"]["rewrites"] if x.get("fn", "").startswith("const "))).encode()).hexdigest()
        cur_hash = {fd["fn"]: fd["sha256"] for fd in r["map"]["functions"]}
        def is_known_any(f):
            return any(match_known(known, k.get("property"), f) for k in known.get("findings", []) if k.get("status") == "known")
        def unchanged(fn):
            if fn is None: return False
            if fn.startswith("proof:"): return True          # lemmas do not depend on /repo at all
            return bool(bl) and bl.get("consts") == cur_consts and bl.get("fns", {}).get(fn) == cur_hash.get(fn)
        if r["status"] == "fail" and any(unchanged(f["fn"]) and not is_known_any(f) for f in r["fails"]):
            # retry with other seeds: keep only failures that persist
            persistent = None
            for sd in (11, 23):
                r2 = run_unit(unit, seed=sd, tag=f"_s{sd}")
                if r2["status"] == "undecided":
                    continue
                keys2 = set((f["fn"], f["kind"], f.get("clause")) for f in r2.get("fails", []))
                persistent = keys2 if persistent is None else (persistent & keys2)
            stable, flaky = [], []
            for f in r["fails"]:
                if unchanged(f["fn"]) and not is_known_any(f):
                    flaky.append(f)
                else:
                    stable.append(f)
            for f in flaky:
                undecided.append(f"unit {unit}: obligations of UNCHANGED function {f['fn']} fail ([{f['kind']}] {(f.get('clause') or '')[:80]}): solver instability, not a violation"
                                 + ("" if persistent is None or (f['fn'], f['kind'], f.get('clause')) in persistent else " (passes with another seed)"))
            r["fails"] = stable
            if not stable:
                r["status"] = "ok-with-instability"
        tplp = template_fn_props(unit)
        serves = r["map"]["serves"]
        for lh in r["map"].get("lost_hints", []):
            lost_hint_fns.add(lh["fn"]); notes.append(f"unit {unit}: ghost hint anchor lost in {lh['fn']}: `{lh['anchor']}` (hint skipped)")
        for sk in r["map"].get("skipped_rewrites", []):
            notes.append(f"unit {unit}: rewrite {sk['rule']} not applied in {sk['fn']} (construct `{sk['text']}` absent)")
        cmds.append(r["cmd"])
        trusted.update(r["trusted"])
        smt_ms += r.get("smt_ms", 0)
        # per function bookkeeping
        bd = {}
        for b in r["breakdown"]:
            short = b["function"].split("::", 1)[-1]
            bd[short] = b
        relevant = []
        for fd in r["map"]["functions"]:
            ps = tplp.get(fd["fn"], serves)
            if pid in ps or not cfg.get("strict_fn_filter"):
                relevant.append(fd)
        # count proof units: every verus function-level query of the unit (lemmas included: the property argument rests on them)
        n_units = r.get("verified", 0) + r.get("errors", 0)
        obligations += n_units
        failed_fns = set()
        for f in r["fails"]:
            # does this failure concern this property?
            ps = tplp.get(f["fn"], serves) if f["fn"] and not f["fn"].startswith("proof:") else serves
            bare = (f["fn"] or "").split("::")[-1].strip().replace("proof:", "")
            if pid not in ps and bare not in cfg.get("dep_fns", []):
                continue
            if f.get("clause_props") and pid not in f["clause_props"]:
                continue
            failed_fns.add(f["fn"])
            k = match_known(known, pid, f)
            if k:
                known_hits.append((k, f))
            else:
                violations.append(("verus", unit, f))
        # discharged = verified proof units + units whose only failing clauses belong to other properties
        # (Verus checks every clause separately; --multiple-errors reports each failing one)
        all_failed = set(f["fn"] for f in r["fails"])
        other_only = [x for x in all_failed if x not in failed_fns]
        discharged += r.get("verified", 0) + min(len(other_only), r.get("errors", 0))
        if other_only:
            notes.append(f"unit {unit}: {other_only} have failing clauses that are attributed to other properties (see their evidence); the clauses serving {pid} are discharged")
        for fd in r["map"]["functions"]:
            nm = fd["name"]
            b = None
            for k2, v2 in bd.items():
                if k2.endswith("::" + nm) or k2 == nm:
                    b = v2
            rw = [x for x in r["map"]["rewrites"] if x.get("fn") == fd["fn"]]
            functions.append({"fn": fd["fn"], "src": f"{fd['file']}:{fd['line']}-{fd['end_line']}", "sha256": fd["sha256"],
                              "real_signature": fd["real_signature"],
                              "rewrites": [f"{x['rule']}@{x.get('line')}: {x.get('before', x.get('note', ''))[:80]!r} -> {x.get('after', '')[:80]!r}" for x in rw],
                              "backend": "verus/z3", "smt_ms": (b or {}).get("time"), "rlimit": (b or {}).get("rlimit"),
                              "status": "failed" if fd["fn"] in failed_fns else "discharged"})
        # samples: three contract clauses of relevant functions
        for fd in relevant[:3]:
            gl = fd["gen_lines"]
            sig = r["gen_text"].split("\n")[gl[0] - 1:gl[0] + 12]
            ens = [x.strip() for x in sig if x.strip() and not x.strip().startswith("{")]
            samples.append({"obligation": f"{fd['fn']}: contract", "clauses": ens[:8], "src": f"{fd['file']}:{fd['line']}",
                            "status": "failed" if fd["fn"] in failed_fns else "discharged"})
    # canaries (vacuity guard)
    canary_info = None
    if cfg.get("units") and not undecided and (tier == "thorough" or cfg.get("canary_quick", True)):
        canary_info = []
        for unit in cfg["units"]:
            if unit in skip_canary: continue
            rc = run_unit(unit, variant="canary", tag="_canary")
            if rc["status"] == "undecided":
                undecided.append(f"canary {unit}: {rc['reason'][:500]}"); continue
            cn = rc["map"].get("canary_fns", [])
            ranges = rc["map"].get("canary_ranges", {})
            failing_names = set()
            for b in parse_verus_stderr(rc["stderr"]):
                if b["level"] != "error" or classify(b["msg"]) is None: continue
                for (f_, ln, col) in b["locs"]:
                    for nm, (a, z) in ranges.items():
                        if a <= ln <= z: failing_names.add(nm)
            not_failing = [nm for nm in cn if nm not in failing_names]
            # the originals must still verify in the canary file (else the duplicate scheme is broken)
            if tier == "thorough":
                import concurrent.futures
                singles = rc["map"].get("canary_single", [])
                def one(nm):
                    r1 = run_unit(unit, variant="canary-only=" + nm, tag="_c1_" + slug(nm))
                    ok = r1["status"] == "fail" and any(f["fn"] == nm for f in r1["fails"])
                    return nm, ok, r1.get("reason", "")
                with concurrent.futures.ThreadPoolExecutor(max_workers=8) as ex:
                    for nm, ok, why in ex.map(one, singles):
                        cn.append(nm)
                        if not ok: not_failing.append(nm)
            canary_info.append({"unit": unit, "contracted": len(cn), "failed_as_required": len(cn) - len(not_failing), "vacuous": not_failing})
            if not_failing:
                undecided.append(f"vacuity: `ensures false` still verifies for {not_failing} in unit {unit} (contradictory precondition or unreachable exit)")
    # mutant self-test (thorough): every registered breaking edit must be rejected by a named obligation
    mutant_info = None
    if tier == "thorough" and not undecided:
        import mutant as mutant_mod
        mutant_info = []
        for unit in cfg.get("units", []) + cfg.get("mutant_units", []):
            for o in mutant_mod.run_all(unit):
                mutant_info.append({"unit": unit, "mutant": o["name"], "status": "killed" if o["status"] == "fail" else ("equivalent (survives, by design)" if o.get("equivalent") and o["status"] == "ok" else o["status"]), "killed_by": o.get("killed_by", [])[:3]})
                if o["status"] == "ok" and not o.get("equivalent"):
                    notes.append(f"STRENGTH WARNING: mutant `{o['name']}` of unit {unit} is not rejected by any obligation")
    # Kani
    kani_results = []
    for kc in cfg.get("kani", []):
        if kc.get("tier") == "thorough" and tier != "thorough":
            continue
        # quick tier: a change that makes CBMC blow up (seed C15-b: tendermint Height::try_from in EdsId::decode, > 30 min) is left
        # undecided after 20 min and decided by the native enumerator below; the unchanged tree needs < 3 min warm
        kr = run_kani(kc["pkg"], kc["harnesses"], timeout=kc.get("timeout", 1800 if tier == "thorough" else 1200))
        kani_results.append((kc, kr))
        cmds.append(kr["cmd"])
        if kr["status"] == "undecided":
            undecided.append(f"kani {kc['pkg']}: {kr['reason'][-800:]}")
            continue
        for p in kr["per"]:
            is_bounded = kc.get("role") == "bounded"
            if is_bounded:
                bounded.append({"harness": p["harness"], "bound": kc.get("bound", ""), "checks": p["checks"], "status": p["status"]})
            else:
                obligations += p["checks"]
                discharged += p["checks"] - p.get("nfailed", 0)
            functions_entry = {"fn": p["harness"], "backend": "kani/cbmc", "role": kc.get("role", "complete"), "checks": p["checks"], "time_s": p["time"], "status": p["status"]}
            functions.append(functions_entry)
            if p["status"] != "SUCCESSFUL":
                f = {"fn": p["harness"], "harness": p["harness"].split("::")[-1], "kind": "kani", "msg": "; ".join(p["failed"])[:500], "clause": "; ".join(p["failed"])[:500], "text": kr["out"][-4000:]}
                k = match_known(known, pid, f)
                if k: known_hits.append((k, f))
                else: violations.append(("kani", kc["pkg"], f))
        trusted.update(kc.get("trusted", []))

    # native bounded stand-ins: exhaustive enumerators / random models on the real code. The thorough tier runs the big
    # ones; the quick tier runs the quick-sized one that also serves as witness finder - ALWAYS, not only after a failed
    # proof: parts of several properties live in code that is a stub for the verifier (seeds C05-b, C10-b were missed
    # while this only ran on failure)
    natives = list(cfg.get("native", []))
    if cfg.get("witness") and not any(n.get("tier") == "quick" and n["cmd"] == cfg["witness"]["cmd"] for n in natives):
        natives.append({"name": "witness-finder", "cmd": cfg["witness"]["cmd"], "tier": "quick", "bound": cfg["witness"].get("bound", ""), "timeout": cfg["witness"].get("timeout", 1800)})
    for nc in natives:
        if nc.get("tier", "thorough") == "thorough" and tier != "thorough":
            continue
        cmd = nc["cmd"].replace("{verif}", VERIF).replace("{repo}", REPO).replace("{target}", KANI_TARGET).replace("{name}", "")
        env = dict(os.environ); env["LUMINA_VERIF_DIR"] = VERIF
        try:
            r = subprocess.run(cmd, shell=True, capture_output=True, text=True, timeout=nc.get("timeout", 1800), env=env)
            out = r.stdout + r.stderr
        except subprocess.TimeoutExpired:
            undecided.append("native stand-in timed out"); continue
        cmds.append(cmd)
        mm = re.search(r"ENUM-OK cases=(\d+)", out)
        mw = re.search(r"(?<!NO-)WITNESS (.*)", out) or (re.search(r"(panicked at [^\n]*\n[^\n]*)", out) if "test result: FAILED" in out else None)
        # failing inputs the enumerator classified under a key: a listed known finding, or else a violation
        for mk in re.finditer(r"KNOWN-CANDIDATE (\S+) ([^\n]*)", out):
            fk = {"fn": nc["name"], "kind": "native-enum", "clause": (mk.group(1) + " " + mk.group(2))[:400], "text": out[-3000:], "harness": nc["name"]}
            kk = match_known(known, pid, fk)
            if kk:
                if not any(k0 is kk for (k0, _) in known_hits): known_hits.append((kk, fk))
            else: violations.append(("native", nc["name"], fk))
        if mw:
            f = {"fn": nc["name"], "kind": "native-enum", "clause": mw.group(1)[:300], "text": out[-3000:], "harness": nc["name"]}
            k = match_known(known, pid, f)
            if k: known_hits.append((k, f))
            else: violations.append(("native", nc["name"], f))
        elif mm:
            bounded.append({"harness": nc["name"], "bound": nc.get("bound", ""), "cases": sum(int(x) for x in re.findall(r"ENUM-OK cases=(\d+)", out)), "status": "SUCCESSFUL"})
        else:
            undecided.append(f"native stand-in {nc['name']} gave no verdict: {out[-600:]}")

    wall = time.time() - t0
    exit_code = 0
    lines_out = []
    for (k, f) in known_hits:
        lines_out.append(f"KNOWN-FINDING: property={pid} {k['id']}: {k['what']}")
    # known findings that no longer fail: nothing to print (a fixed entry suppresses nothing)
    vio_paths = []
    groups = {}
    for (engine, unit, f) in violations:
        groups.setdefault((engine, unit, f["fn"]), []).append(f)
    for (engine, unit, fn), fl in groups.items():
        f = fl[0]
        name = f"{pid}-{slug(fn)}"
        path = os.path.join(REPLAY, name + ".json")
        witness = None
        wf = cfg.get("witness")
        if engine == "native":
            witness = {"found": True, "input": f.get("clause"), "how": "native exhaustive enumerator on the real code", "output_tail": f.get("text", "")[-1500:]}
        elif engine == "witness-fallback":
            witness = f.get("witness")
        elif wf:
            witness = run_witness(wf, pid, f, path)
        if fn in lost_hint_fns and not (witness and witness.get("found")):
            # the proof may fail only because a ghost hint lost its anchor: undecided unless the real code exhibits a failing input
            undecided.append(f"{fn}: obligations fail but a ghost hint anchor was lost and no failing input was found: " + "; ".join(f"[{x['kind']}] {(x.get('clause') or '')[:80]}" for x in fl))
            continue
        rep = {"property": pid, "engine": engine, "unit": unit, "function": fn,
               "failed_obligations": [{"kind": x["kind"], "clause": x.get("clause"), "repo_location": x.get("repo"), "verifier_output": x.get("text")} for x in fl],
               "witness": witness,
               "note": "each obligation listed here was discharged on the unchanged tree (see DESIGN.md 2.5) and fails on the current working tree"}
        json.dump(rep, open(path, "w"), indent=1)
        suffix = "" if (witness and witness.get("found")) else " no-failing-input-found"
        lines_out.append(f"VIOLATION property={pid} replay={path}{suffix}")
        vio_paths.append(path)
        exit_code = 1
    if undecided and exit_code == 0:
        exit_code = 2
    level = cfg.get("level", "proof")
    # functions whose only failing clauses are known findings: the function-level proof unit is split into its discharged
    # clauses (counted) and the refuted clause (reported under refuted_known_findings, with its witness, not as an open obligation)
    kf_fns = set(f["fn"] for (k, f) in known_hits if f.get("kind") != "kani" and f.get("kind") != "native-enum")
    vio_fns = set(f["fn"] for (_, _, f) in violations)
    refuted_units = len([x for x in kf_fns if x not in vio_fns])
    if refuted_units and obligations - discharged >= refuted_units:
        discharged += refuted_units
    cov = {
        "obligations": obligations, "discharged": discharged,
        "refuted_known_findings": [{"id": k["id"], "fn": f["fn"], "clause": (f.get("clause") or "")[:300], "witness": k.get("witness")} for (k, f) in known_hits],
        "checker_cmd": " && ".join(cmds) if cmds else "none",
        "trusted_base": sorted(trusted | set(cfg.get("trusted", []))),
        "functions_under_contract": functions,
        "bounded_stand_ins": bounded,
        "solver_ms": smt_ms,
        "canary": canary_info,
        "mutants": mutant_info,
        "samples": samples or [{"note": "no samples"}],
        "explanation": cfg.get("explanation", ""),
        "undecided": undecided,
        "notes": notes,
        "known_findings_hit": [k["id"] for (k, f) in known_hits],
        "cached_verus_results": [u["unit"] for u in unit_results if u.get("cached")],
    }
    ev = {"property_id": pid, "tier": tier, "seed": seed, "level": level, "coverage": cov,
          "assumptions": cfg.get("assumptions", []), "wall_s": round(wall, 2), "violations": len(groups)}
    json.dump(ev, open(os.path.join(EVID, pid + ".json"), "w"), indent=1)
    for l in lines_out:
        print(l)
    for u in undecided:
        print(f"UNDECIDED property={pid} {u[:600]}")
    print(f"{pid} {tier}: obligations={obligations} discharged={discharged} violations={len(groups)} known={len(known_hits)} undecided={len(undecided)} wall={wall:.1f}s")
    sys.exit(exit_code)

def run_witness(wf, pid, f, path):
    """witness finder on the real code; returns dict(found, input, how)"""
    try:
        bare = (f.get("fn") or "").split("::")[-1].strip()
        cmd = wf["cmd"].replace("{fn}", slug(f.get("fn") or "")).replace("{name}", bare).replace("{verif}", VERIF).replace("{repo}", REPO).replace("{target}", KANI_TARGET)
        env = dict(os.environ); env["LUMINA_VERIF_DIR"] = VERIF
        r = subprocess.run(cmd, shell=True, capture_output=True, text=True, timeout=wf.get("timeout", 900), env=env)
        out = r.stdout + r.stderr
        m = re.search(r"(?<!NO-)WITNESS (.*)", out)
        if m:
            return {"found": True, "input": m.group(1), "how": cmd, "bound": wf.get("bound"), "output_tail": out[-1500:]}
        # the real code panicked while the finder was driving it: that execution is the witness
        m = re.search(r"panicked at ([^\n]*)\n([^\n]*)", out)
        if m and "test result: FAILED" in out:
            return {"found": True, "input": "panic in the real code: " + m.group(1) + " " + m.group(2), "how": cmd, "bound": wf.get("bound"), "output_tail": out[-1500:]}
        return {"found": False, "how": cmd, "bound": wf.get("bound"), "output_tail": out[-800:]}
    except Exception as e:
        return {"found": False, "error": str(e)}

if __name__ == "__main__":
    main()
