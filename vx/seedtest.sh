#!/bin/bash
# apply a seeded change to /repo, run the quick check of the property, undo. usage: vx/seedtest.sh <patch> <Cxx> [tier]
set -u
patch=$1; prop=$2; tier=${3:-quick}
git -C /repo status --short | grep -q . && { echo "repo dirty"; exit 2; }
git -C /repo apply "$patch" || exit 2
cd /verif && VERIF_NOCACHE=1 ./check $prop $tier 2>&1 | tail -${TAILN:-6} | cut -c1-600
echo "exit=${PIPESTATUS[0]}"
git -C /repo checkout -- .
# the evidence file must describe the clean tree again
cd /verif && VERIF_NOCACHE=1 ./check $prop quick >/dev/null 2>&1; echo "clean-tree rerun exit=$?"
