#!/usr/bin/env python3
"""vx - mechanical extractor: /repo functions + specification overlay -> one Verus file.

Usage: vx.py <spec-template.rs> <repo-root> <out.rs> <out-map.json>

The template is a Verus file with `//@` directives (see DESIGN.md 2.1/2.2).  Every
function body in the output is a verbatim byte slice of the /repo source file
except for the logged rule instances.  A lost anchor raises VxError (exit 2).
"""
import sys, os, re, json, hashlib, difflib
sys.path.insert(0, os.path.dirname(os.path.abspath(__file__)))
import rlex

class VxError(Exception):
    pass

DROP_MACROS = {"trace", "debug", "info", "warn", "error"}

_src_cache = {}
SKIPPED = []      # rewrites whose anchor text is absent from the current source
LOST_HINTS = []   # ghost hints whose anchor statement is absent from the current source

def load_src(repo, rel):
    key = (repo, rel)
    if key not in _src_cache:
        path = None
        for root in repo.split(":"):
            if os.path.exists(os.path.join(root, rel)):
                path = os.path.join(root, rel); break
        if path is None:
            raise VxError(f"lost anchor: source file {rel} not found")
        src = open(path, encoding="utf-8").read()
        try:
            toks, br, items = rlex.scan_items(src)
        except rlex.LexError as e:
            raise VxError(f"cannot lex {rel}: {e}")
        _src_cache[key] = (src, toks, br, items)
    return _src_cache[key]

def line_of(src, off):
    return src.count("\n", 0, off) + 1

def find_fn(repo, rel, container, name, nth=1):
    src, toks, br, items = load_src(repo, rel)
    want = rlex.norm(container) if container != "-" else ""
    def cont_match(h):
        h = rlex.norm(h)
        if h == want: return True
        if " where " in h and h.split(" where ")[0].strip() == want: return True
        return False
    cands = [it for it in items if it.kind == "fn" and it.name == name and cont_match(it.container) and it.body_open is not None]
    if len(cands) < nth:
        raise VxError(f"lost anchor: fn `{name}` in `{container}` of {rel} not found ({len(cands)} candidates)")
    return src, toks, br, cands[nth - 1]

def parse_quoted(s):
    """parse one or more "..." strings (with \\" and \\n escapes) and bare words from a directive tail"""
    out, i = [], 0
    while i < len(s):
        if s[i].isspace():
            i += 1; continue
        if s[i] == '"':
            j, buf = i + 1, []
            while j < len(s) and s[j] != '"':
                if s[j] == "\\" and j + 1 < len(s):
                    nx = s[j + 1]
                    buf.append({"n": "\n", "t": "\t"}.get(nx, nx)); j += 2
                else:
                    buf.append(s[j]); j += 1
            out.append(("q", "".join(buf))); i = j + 1
        else:
            j = i
            while j < len(s) and not s[j].isspace():
                j += 1
            out.append(("w", s[i:j])); i = j
    return out

class FnSpec:
    def __init__(self, rel, container, name, nth, tline):
        self.rel, self.container, self.name, self.nth, self.tline = rel, container, name, nth, tline
        self.sig = []        # verus signature lines
        self.directives = [] # (kind, args, payload lines, template line)
        self.block = None    # for async-block / closure extraction
    def fid(self):
        return f"{self.container} :: {self.name}" if self.container != "-" else self.name

def expand_includes(path, seen=None):
    """returns list of lines with //@include directives replaced by the exported section of the named unit"""
    seen = seen or set()
    if path in seen:
        raise VxError(f"template include cycle at {path}")
    seen = seen | {path}
    lines = open(path, encoding="utf-8").read().split("\n")
    out = []
    for ln in lines:
        st = ln.strip()
        if st.startswith("//@include "):
            unit = st.split()[1]
            ip = os.path.join(os.path.dirname(path), unit + ".rs")
            if not os.path.exists(ip):
                raise VxError(f"template include: {ip} not found")
            inc = expand_includes(ip, seen)
            inside, got = False, False
            saved_src = None
            for l2 in inc:
                s2 = l2.strip()
                if s2.startswith("//@src ") and not inside:
                    saved_src = l2
                if s2 == "//@begin-export":
                    inside, got = True, True
                    out.append(f"// ---- begin include of unit {unit} ----")
                    if saved_src: out.append(saved_src)
                    continue
                if s2 == "//@end-export":
                    inside = False
                    out.append(f"// ---- end include of unit {unit} ----")
                    continue
                if inside:
                    out.append(l2)
                elif s2.startswith("//@sub-all ") or s2.startswith("//@macro ") or s2.startswith("//@drop-macro "):
                    out.append(l2)
            if not got:
                raise VxError(f"template include: unit {unit} has no //@begin-export section")
        else:
            out.append(ln)
    return out

def parse_template(path):
    lines = expand_includes(path)
    out = []   # list of ("text", str) | ("fn", FnSpec)
    glob = {"src": None, "sub_all": [], "macros": {}, "unit": os.path.basename(path)[:-3], "serves": [], "drop_macros": set(DROP_MACROS)}
    i = 0
    cur = None
    cur_dir = None
    while i < len(lines):
        ln = lines[i]
        s = ln.strip()
        if s.startswith("//@"):
            body = s[3:].strip()
            kw, _, rest = body.partition(" ")
            rest = rest.strip()
            if cur is None:
                if kw == "unit": glob["unit"] = rest
                elif kw == "serves": glob["serves"] = rest.split()
                elif kw == "src": glob["src"] = rest
                elif kw == "sub-all":
                    p = parse_quoted(rest)
                    rule = p[0][1]
                    qs = [x[1] for x in p if x[0] == "q"]
                    if len(qs) != 2: raise VxError(f"template line {i+1}: sub-all needs two strings")
                    glob["sub_all"].append((rule, qs[0], qs[1]))
                elif kw == "macro":
                    nm, _, repl = rest.partition("=>")
                    glob["macros"][nm.strip()] = repl.strip()
                elif kw == "drop-macro":
                    glob["drop_macros"].update(rest.split())
                elif kw in ("begin-export", "end-export"):
                    pass
                elif kw == "const":
                    # //@const NAME [@ file] : copy `const NAME: T = V;` verbatim from the source
                    m = re.match(r"^([A-Za-z_][A-Za-z0-9_]*)\s*(?:@\s*(\S+))?$", rest)
                    if not m: raise VxError(f"template line {i+1}: bad //@const")
                    out.append(("const", (m.group(1), m.group(2) or glob["src"], i + 1)))
                elif kw == "fn":
                    # //@fn <container> :: <name> [#n] [@ file]
                    m = re.match(r"^(.*?)\s*::\s*([A-Za-z_][A-Za-z0-9_]*)\s*(?:#(\d+))?\s*(?:@\s*(\S+))?$", rest)
                    if not m: raise VxError(f"template line {i+1}: bad //@fn")
                    rel = m.group(4) or glob["src"]
                    if rel is None: raise VxError(f"template line {i+1}: no //@src")
                    cur = FnSpec(rel, m.group(1).strip(), m.group(2), int(m.group(3) or 1), i + 1)
                    cur_dir = None
                else:
                    raise VxError(f"template line {i+1}: unknown directive {kw}")
            else:
                if kw == "end":
                    out.append(("fn", cur)); cur = None; cur_dir = None
                elif kw in ("props", "nocanary", "mutself", "macro", "block", "exprblock", "closureexpr", "span", "binops", "refarg", "addarg"):
                    cur.directives.append((kw, rest, [], i + 1))
                else:
                    cur_dir = (kw, rest, [], i + 1)
                    cur.directives.append(cur_dir)
        else:
            if cur is None:
                out.append(("text", ln))
            elif cur_dir is None:
                cur.sig.append(ln)
            else:
                cur_dir[2].append(ln)
        i += 1
    if cur is not None:
        raise VxError(f"template: //@fn at line {cur.tline} has no //@end")
    return glob, out

class Edits:
    def __init__(self, src, lo, hi):
        self.src, self.lo, self.hi = src, lo, hi
        self.e = []   # (start, end, text, rule, note)
    def add(self, start, end, text, rule, note=""):
        if not (self.lo <= start <= end <= self.hi):
            raise VxError(f"internal: edit out of range ({rule})")
        keep = []
        for ed in self.e:
            (s, e, _, r, _) = ed
            if start < e and s < end:
                if start <= s and e <= end:
                    continue            # the new (outer) rewrite replaces text that contained an earlier one: outer wins
                if s <= start and end <= e:
                    return              # the new rewrite lies inside text that is already replaced: nothing to do
                raise VxError(f"conflicting rewrites: {rule} overlaps {r} at line {line_of(self.src, start)}")
            if start == end and s < start < e:
                return                  # insertion point inside replaced text
            if s == e and start < s < end:
                continue                # earlier insertion inside the newly replaced text
            keep.append(ed)
        self.e = keep
        self.e.append((start, end, text, rule, note))
    def render(self):
        """returns (text, segments) where segments = list of (text, orig_off or None)"""
        # stable order: by start, zero-length inserts at same offset keep insertion order and go before replacements starting there
        order = sorted(range(len(self.e)), key=lambda k: (self.e[k][0], 0 if self.e[k][0] == self.e[k][1] else 1, k))
        segs, pos = [], self.lo
        for k in order:
            s, e, text, rule, note = self.e[k]
            if s > pos:
                segs.append((self.src[pos:s], pos))
            elif s < pos:
                raise VxError(f"conflicting rewrites at line {line_of(self.src, s)} ({rule})")
            segs.append((text, None))
            pos = e
        if pos < self.hi:
            segs.append((self.src[pos:self.hi], pos))
        return segs

_tok_cache = {}
def _toks_of(src):
    k = id(src)
    if k not in _tok_cache or _tok_cache[k][0] is not src:
        _tok_cache[k] = (src, rlex.lex(src))
    return _tok_cache[k][1]

def find_text(src, lo, hi, needle, nth, what, allow_ws=True):
    """find `needle` in src[lo:hi], return (start,end). Matching is by TOKEN SEQUENCE (insensitive to whitespace,
    line breaks and comments between tokens); if the needle does not lex, fall back to whitespace-insensitive text search.
    nth: 0 = must be unique, n = n-th occurrence, 'all', 'last'"""
    ms = None
    try:
        nt = [t.text for t in rlex.lex(needle)]
        if nt:
            toks = _toks_of(src)
            # tokens fully inside [lo, hi)
            import bisect
            starts = [t.start for t in toks]
            a = bisect.bisect_left(starts, lo)
            ms = []
            k = a
            n = len(nt)
            while k + n <= len(toks) and toks[k + n - 1].end <= hi:
                if toks[k].text == nt[0]:
                    ok = True
                    for d in range(1, n):
                        if toks[k + d].text != nt[d]:
                            ok = False; break
                    if ok:
                        ms.append((toks[k].start, toks[k + n - 1].end))
                        k += n
                        continue
                k += 1
    except rlex.LexError:
        ms = None
    if ms is None:
        parts = [re.escape(p) for p in needle.split()]
        rx = re.compile(r"\s+".join(parts))
        ms = [(m.start(), m.end()) for m in rx.finditer(src, lo, hi)]
    if nth == "all":
        return ms
    if nth == "last":
        if not ms:
            raise VxError(f"lost anchor: {what}: text `{needle}` not found")
        return ms[-1]
    if nth == 0:
        if len(ms) != 1:
            raise VxError(f"lost anchor: {what}: text `{needle}` occurs {len(ms)} times (expected exactly 1)")
        return ms[0]
    if len(ms) < nth:
        raise VxError(f"lost anchor: {what}: text `{needle}` occurrence #{nth} not found ({len(ms)} found)")
    return ms[nth - 1]

def split_top_commas(toks, br, lo, hi):
    """token index ranges of comma separated args within (lo,hi) exclusive"""
    args, start, i = [], lo, lo
    depth_angle = 0
    while i < hi:
        t = toks[i]
        if t.kind == "open":
            i = br[i] + 1; continue
        if t.kind == "punct" and t.text == ",":
            args.append((start, i)); start = i + 1
        i += 1
    if start < hi:
        args.append((start, hi))
    return args

def tok_text(src, toks, a, b):
    """verbatim source text of tokens [a,b)"""
    if a >= b: return ""
    return src[toks[a].start:toks[b - 1].end]

FOR_COUNTER = [0]

OPNAMES = {"+": "add", "-": "sub", "&": "bitand", "|": "bitor"}
def desugar_binops(text):
    """E9-op: `L OP &ident` with OP in + - & | (operands: identifier, method-call chain or parenthesised group) becomes
    `L.add(&ident)` / `.sub` / `.bitand` / `.bitor`, left-associatively, innermost first. Returns (new_text, count)."""
    count = 0
    while True:
        toks = rlex.lex(text)
        br = rlex.match_brackets(toks)
        hit = None; rend = None
        for i in range(1, len(toks) - 2):
            t = toks[i]
            if t.kind == "punct" and t.text in OPNAMES and toks[i + 1].kind == "punct" and toks[i + 1].text == "&" \
                    and toks[i + 2].kind == "ident" and (toks[i - 1].kind == "ident" or (toks[i - 1].kind == "close" and toks[i - 1].text == ")")
                                                       or (toks[i - 1].kind == "punct" and toks[i - 1].text == "?" and i >= 2)):
                # the right operand is an identifier or a field path `a.b.c`; it must end there (no method call / index after it)
                e = i + 2
                while e + 2 < len(toks) and toks[e + 1].kind == "punct" and toks[e + 1].text == "." and toks[e + 2].kind == "ident" \
                        and not (e + 3 < len(toks) and toks[e + 3].kind == "open" and toks[e + 3].text == "("):
                    e += 2
                if e + 1 < len(toks) and toks[e + 1].kind == "punct" and toks[e + 1].text in (".", "::"):
                    continue
                if e + 1 < len(toks) and toks[e + 1].kind == "open" and toks[e + 1].text in ("(", "["):
                    continue
                rend = e
                hit = i; break
        if hit is None:
            return text, count
        i = hit
        rev = {c: o for o, c in br.items()}
        j = i - 1
        while True:
            # postfix `?` (and the `.await` before it) belong to the left operand
            if toks[j].kind == "punct" and toks[j].text == "?" and j >= 1:
                j -= 1; continue
            if toks[j].kind == "close" and toks[j].text == ")":
                j = rev[j]
                if j - 1 >= 0 and toks[j - 1].kind == "ident" and not (toks[j - 1].text in ("if", "while", "match", "return", "in")):
                    j -= 1
                else:
                    break
            elif toks[j].kind != "ident":
                j += 1; break
            if j - 1 >= 0 and toks[j - 1].kind == "punct" and toks[j - 1].text == "." and j - 2 >= 0:
                j -= 2; continue
            break
        left = text[toks[j].start:toks[i - 1].end]
        new = f"{left}.{OPNAMES[toks[i].text]}(&{text[toks[i + 2].start:toks[rend].end]})"
        text = text[:toks[j].start] + new + text[toks[rend].end:]
        count += 1

def rewrite_for(src, toks, br, loop, spec_text, idx_name, log, kind_hint=None):
    """E7: returns (start,end,replacement) for the loop header incl. opening brace."""
    kw = loop["kw_tok"]; op = loop["open"]
    # split PAT in EXPR
    i = kw + 1
    in_idx = None
    while i < op:
        if toks[i].kind == "open":
            i = br[i] + 1; continue
        if toks[i].kind == "ident" and toks[i].text == "in":
            in_idx = i; break
        i += 1
    if in_idx is None:
        raise VxError(f"E7: no `in` in for header at line {line_of(src, toks[kw].start)}")
    pat = tok_text(src, toks, kw + 1, in_idx).strip()
    expr = tok_text(src, toks, in_idx + 1, op).strip()
    n = idx_name
    # label?
    m = None
    def strip_suffix(e, suf):
        ne = rlex.norm(e)
        ns = rlex.norm(suf)
        if ne.endswith(" " + ns) or ne == ns:
            # cut at token level
            et = rlex.lex(e)
            st = rlex.lex(suf)
            cut = et[len(et) - len(st)].start
            return e[:cut].rstrip()
        return None
    # X.iter().zip(Y.iter()).enumerate() with pattern (i, (a, b))
    ne = rlex.norm(expr)
    mz = re.match(r"^(.*) \. iter \( \) \. zip \( (.*) \. iter \( \) \) \. enumerate \( \)$", ne)
    if mz:
        pm = re.match(r"^\(\s*([A-Za-z_][A-Za-z0-9_]*)\s*,\s*\(\s*([A-Za-z_][A-Za-z0-9_]*)\s*,\s*([A-Za-z_][A-Za-z0-9_]*)\s*\)\s*\)$", pat, re.S)
        if not pm:
            raise VxError(f"E7: unsupported zip/enumerate pattern `{pat}`")
        def untok(t): return re.sub(r"\s*([.()\[\]:,])\s*", r"\1", t).replace(",", ", ")
        X, Y = untok(mz.group(1)), untok(mz.group(2))
        iv, av, bv = pm.group(1), pm.group(2), pm.group(3)
        head = f"let mut {n}: usize = 0;\n while {n} < {X}.len() && {n} < {Y}.len()\n{spec_text}\n {{\n let {iv} = {n}; let {av} = &{X}[{n}]; let {bv} = &{Y}[{n}]; {n} += 1;\n"
        return head, f"for {pat} in {expr} {{ => index loop over zip(`{X}`, `{Y}`) (enumerate)"
    mz = re.match(r"^(.*) \. iter \( \) \. zip \( (.*?)(?: \. iter \( \))? \)$", ne)
    if mz:
        pm = re.match(r"^\(\s*([A-Za-z_][A-Za-z0-9_]*)\s*,\s*([A-Za-z_][A-Za-z0-9_]*)\s*\)$", pat, re.S)
        if not pm:
            raise VxError(f"E7: unsupported zip pattern `{pat}`")
        def untok2(t): return re.sub(r"\s*([.()\[\]:,])\s*", r"\1", t).replace(",", ", ")
        X, Y = untok2(mz.group(1)), untok2(mz.group(2))
        av, bv = pm.group(1), pm.group(2)
        head = f"let mut {n}: usize = 0;\n while {n} < {X}.len() && {n} < {Y}.len()\n{spec_text}\n {{\n let {av} = &{X}[{n}]; let {bv} = &{Y}[{n}]; {n} += 1;\n"
        return head, f"for {pat} in {expr} {{ => index loop over zip(`{X}`, `{Y}`)"
    base = strip_suffix(expr, ".iter().enumerate()")
    if base is not None:
        pm = re.match(r"^\(\s*([A-Za-z_][A-Za-z0-9_]*)\s*,\s*(.+?)\s*\)$", pat, re.S)
        if not pm:
            raise VxError(f"E7: unsupported enumerate pattern `{pat}`")
        iv, ev = pm.group(1), pm.group(2)
        head = f"let mut {n}: usize = 0;\n while {n} < {base}.len()\n{spec_text}\n {{\n let {iv} = {n}; let {ev} = &{base}[{n}]; {n} += 1;\n"
        return head, f"for {pat} in {expr} {{ => index loop over `{base}` (enumerate)"
    base = strip_suffix(expr, ".iter().rev()")
    if base is not None:
        head = f"let mut {n}: usize = {base}.len();\n while {n} > 0\n{spec_text}\n {{\n {n} -= 1; let {pat} = &{base}[{n}];\n"
        return head, f"for {pat} in {expr} {{ => reverse index loop over `{base}`"
    base = strip_suffix(expr, ".iter()")
    if base is None and expr.startswith("&") and not expr.startswith("&mut"):
        base = expr[1:].strip()
    if base is not None:
        head = f"let mut {n}: usize = 0;\n while {n} < {base}.len()\n{spec_text}\n {{\n let {pat} = &{base}[{n}]; {n} += 1;\n"
        return head, f"for {pat} in {expr} {{ => index loop over `{base}`"
    # integer range `A..B`
    et = rlex.lex(expr)
    dd = [k for k, t in enumerate(et) if t.kind == "punct" and t.text == ".."]
    depth_ok = []
    if dd:
        # only a top-level `..`
        br2 = rlex.match_brackets(et)
        inside = set()
        for o, c in br2.items():
            inside.update(range(o + 1, c))
        depth_ok = [k for k in dd if k not in inside]
    dde = [k for k, t in enumerate(et) if t.kind == "punct" and t.text == "..="]
    if dde and re.match(r"^[A-Za-z_][A-Za-z0-9_]*$", pat):
        br3 = rlex.match_brackets(et)
        inside3 = set()
        for o, c in br3.items():
            inside3.update(range(o + 1, c))
        top = [k for k in dde if k not in inside3]
        if len(top) == 1:
            # inclusive integer range `A..=B`: counted without computing B + 1
            k = top[0]
            A = expr[:et[k].start].strip(); B = expr[et[k].end:].strip()
            bind = "" if pat == "_" else f"let {pat} = {n}; "
            head = (f"let mut {n} = {A}; let {n}_end = {B}; let mut {n}_done: bool = {n} > {n}_end;\n"
                    f" while !{n}_done\n{spec_text}\n {{\n {bind}if {n} == {n}_end {{ {n}_done = true; }} else {{ {n} += 1; }}\n")
            return head, f"for {pat} in {expr} {{ => counting loop over the inclusive range `{A}..={B}`"
    if len(depth_ok) == 1 and re.match(r"^[A-Za-z_][A-Za-z0-9_]*$", pat):
        k = depth_ok[0]
        A = expr[:et[k].start].strip(); B = expr[et[k].end:].strip()
        bind = "" if pat == "_" else f"let {pat} = {n}; "
        head = f"let mut {n} = {A}; let {n}_end = {B};\n while {n} < {n}_end\n{spec_text}\n {{\n {bind}{n} += 1;\n"
        return head, f"for {pat} in {expr} {{ => counting loop from `{A}` up to (excluding) `{B}`"
    if re.match(r"^[A-Za-z_][A-Za-z0-9_]*$", expr) and kind_hint and "ref" in kind_hint:
        # `for PAT in s` where `s` is a `&[T]` / `&Vec<T>`: yields `&T`
        head = f"let mut {n}: usize = 0;\n while {n} < {expr}.len()\n{spec_text}\n {{\n let {pat} = &{expr}[{n}]; {n} += 1;\n"
        return head, f"for {pat} in {expr} {{ => index loop over the slice reference `{expr}`"
    if re.match(r"^[A-Za-z_][A-Za-z0-9_]*$", expr) and kind_hint and "copy" in kind_hint:
        # `for PAT in v` over a Vec by value: index loop copying each element (compiles only for Copy elements)
        head = f"let mut {n}: usize = 0;\n while {n} < {expr}.len()\n{spec_text}\n {{\n let {pat} = {expr}[{n}]; {n} += 1;\n"
        return head, f"for {pat} in {expr} {{ => index loop over the Vec `{expr}` (elements are Copy)"
    if kind_hint and "iter" in kind_hint:
        # `for PAT in EXPR[.rev()]` over a user type that implements Iterator / DoubleEndedIterator by delegating
        # `next`/`next_back` to the named method (std's Rev::next is next_back): the iterator protocol spelled out
        meth = kind_hint[kind_hint.index("iter") + 1]
        b2 = strip_suffix(expr, ".rev()")
        e0 = b2 if b2 is not None else expr
        head = f"let mut {n}_it = {e0};\n while let Some({pat}) = {n}_it.{meth}()\n{spec_text}\n {{\n"
        return head, f"for {pat} in {expr} {{ => iterator protocol: while let Some(..) = it.{meth}()"
    if re.match(r"^[A-Za-z_][A-Za-z0-9_]*$", expr) and kind_hint and "rangeinc" in kind_hint:
        # `for PAT in r` over a RangeInclusive<u64> by value: start..=end, without computing end + 1
        head = (f"let mut {n}: u64 = *{expr}.start(); let {n}_end: u64 = *{expr}.end(); let mut {n}_done: bool = {n} > {n}_end;\n"
                f" while !{n}_done\n{spec_text}\n {{\n let {pat} = {n}; if {n} == {n}_end {{ {n}_done = true; }} else {{ {n} += 1; }}\n")
        return head, f"for {pat} in {expr} {{ => counting loop over the inclusive range `{expr}`"
    raise VxError(f"E7: unsupported iterator expression `{expr}` at line {line_of(src, toks[kw].start)}")

def process_fn(repo, glob, fs, log):
    src, toks, br, item = find_fn(repo, fs.rel, fs.container, fs.name, fs.nth)
    bo, bc = item.body_open, item.body_close
    lo, hi = toks[bo].end, toks[bc].start     # body text range (exclusive of braces)
    tlo, thi = bo + 1, bc                     # token range of body
    orig_text = src[toks[item.tok_lo].start:toks[bc].end]
    real_sig = src[toks[item.tok_lo].start:toks[bo].start].strip()

    # optional: restrict to a sub-block (async move block / closure body) : //@block "async move {" n
    expr_wrap = False
    for (kw, rest, payload, tl) in fs.directives:
        if kw == "exprblock":
            # E11: the verification target is ONE expression of the function that ends in a brace block (a `match x { .. }`
            # used as a closure body, say): from the start of the needle to the brace that closes it
            p = parse_quoted(rest)
            needle = [x[1] for x in p if x[0] == "q"][0]
            nth = 0
            for x in p:
                if x[0] == "w" and x[1].isdigit(): nth = int(x[1])
            s, e = find_text(src, lo, hi, needle, nth, f"{fs.name} exprblock")
            ob = None; first = None
            for k in range(tlo, thi):
                if s <= toks[k].start < e:
                    if first is None: first = k
                    if toks[k].kind == "open" and toks[k].text == "{": ob = k
            if ob is None:
                raise VxError(f"lost anchor: exprblock `{needle}` has no opening brace")
            # body range = the whole expression: pretend the braces are just outside it
            lo, hi = toks[first].start, toks[br[ob]].end
            tlo, thi = first, br[ob] + 1
            expr_wrap = True
            log.append({"fn": fs.fid(), "rule": "E11", "line": line_of(src, s), "note": f"verification target is the expression `{needle} .. }}` of {fs.name}"})
        if kw == "span":
            # E11: the verification target is a run of statements: from the start of the first anchor to the end of the second
            p = parse_quoted(rest)
            qs_ = [x[1] for x in p if x[0] == "q"]
            s1, e1 = find_text(src, lo, hi, qs_[0], 0, f"{fs.name} span start")
            s2, e2 = find_text(src, lo, hi, qs_[1], 0, f"{fs.name} span end")
            if s2 < s1:
                raise VxError(f"lost anchor: span of {fs.name}: end anchor precedes start anchor")
            ks = [k for k in range(tlo, thi) if s1 <= toks[k].start and toks[k].end <= e2]
            lo, hi = s1, e2
            tlo, thi = ks[0], ks[-1] + 1
            log.append({"fn": fs.fid(), "rule": "E11", "line": line_of(src, s1), "note": f"verification target is the statements `{qs_[0]}` .. `{qs_[1]}` of {fs.name}"})
        if kw == "closureexpr":
            # E11: the verification target is the EXPRESSION body of a closure `|x| expr` given by its header: from the first
            # token after the header to the enclosing close bracket or the next top-level comma
            p = parse_quoted(rest)
            needle = [x[1] for x in p if x[0] == "q"][0]
            nth = 0
            for x in p:
                if x[0] == "w" and x[1].isdigit(): nth = int(x[1])
            s, e = find_text(src, lo, hi, needle, nth, f"{fs.name} closureexpr")
            enc = None
            for o, c in br.items():
                if toks[o].start < s and toks[c].start >= e and (enc is None or toks[o].start > toks[enc[0]].start):
                    enc = (o, c)
            if enc is None:
                raise VxError(f"lost anchor: closureexpr `{needle}` is not inside an argument list")
            kb = next(k for k in range(tlo, thi) if toks[k].start >= e)
            endk = enc[1]; k = kb
            while k < enc[1]:
                if toks[k].kind == "open": k = br[k] + 1; continue
                if toks[k].kind == "punct" and toks[k].text == ",": endk = k; break
                k += 1
            lo, hi = toks[kb].start, toks[endk - 1].end
            tlo, thi = kb, endk
            expr_wrap = True
            log.append({"fn": fs.fid(), "rule": "E11", "line": line_of(src, s), "note": f"verification target is the body of the closure `{needle}` of {fs.name}"})
        if kw == "block":
            p = parse_quoted(rest)
            needle = [x[1] for x in p if x[0] == "q"][0]
            nth = 0
            for x in p:
                if x[0] == "w" and x[1].isdigit(): nth = int(x[1])
            s, e = find_text(src, lo, hi, needle, nth, f"{fs.name} block")
            # the block's opening brace is the last '{' token in the needle span
            ob = None
            for k in range(tlo, thi):
                if toks[k].kind == "open" and toks[k].text == "{" and s <= toks[k].start < e:
                    ob = k
            if ob is None:
                raise VxError(f"lost anchor: block `{needle}` has no opening brace")
            bo, bc = ob, br[ob]
            lo, hi = toks[bo].end, toks[bc].start
            tlo, thi = bo + 1, bc
            log.append({"fn": fs.fid(), "rule": "E11", "line": line_of(src, s), "note": f"verification target is the block `{needle}` of {fs.name}"})

    ed = Edits(src, lo, hi)
    loops = rlex.find_loops(toks, br, tlo, thi)
    macros = rlex.find_macros(toks, br, tlo, thi)

    def logrule(rule, off, before, after):
        log.append({"fn": fs.fid(), "file": fs.rel, "rule": rule, "line": line_of(src, off),
                    "before": before[:300], "after": after[:300]})

    # --- automatic rules on macros (E3, E4, E5) ---
    fn_macros = dict(glob["macros"])
    for (kw, rest, payload, tl) in fs.directives:
        if kw == "macro":
            nm, _, repl = rest.partition("=>")
            fn_macros[nm.strip()] = repl.strip()
    covered = []  # spans already replaced (to skip nested macros)
    def is_covered(off):
        return any(s <= off < e for (s, e) in covered)
    # --- pre-pass: opaque blocks (E11) are replaced before anything inside them is looked at ---
    for (kw, rest, payload, tl) in fs.directives:
        what = f"{fs.name} (template line {tl})"
        if kw == "opaque":
            # //@opaque "async move {" [n] => "replacement": E11, replaces the whole brace block introduced by the needle
            p = parse_quoted(rest)
            qs = [x[1] for x in p if x[0] == "q"]
            nth = 0
            for x in p:
                if x[0] == "w" and x[1].isdigit(): nth = int(x[1])
            s0, e0 = find_text(src, lo, hi, qs[0], nth, what)
            ob = None
            for k in range(tlo, thi):
                if toks[k].kind == "open" and toks[k].text == "{" and s0 <= toks[k].start < e0:
                    ob = k
            if ob is None:
                raise VxError(f"lost anchor: {what}: opaque block `{qs[0]}` has no brace")
            e1 = toks[br[ob]].end
            ed.add(s0, e1, qs[1], "E11", "opaque block"); covered.append((s0, e1))
            logrule("E11", s0, src[s0:e1], qs[1])
    for m in macros:
        name = m["name"]; nt = m["tok"]; op = m["open"]; cl = m["close"]
        start, end = toks[nt].start, toks[cl].end
        if is_covered(start):
            continue
        # statement macro: followed by ';'
        nxt = toks[cl + 1] if cl + 1 < len(toks) else None
        semi_end = nxt.end if (nxt is not None and nxt.kind == "punct" and nxt.text == ";") else None
        args = split_top_commas(toks, br, op + 1, cl)
        if name in glob["drop_macros"]:
            e = semi_end if semi_end is not None else end
            ed.add(start, e, "" if semi_end is not None else "()", "E3", name)
            covered.append((start, e)); logrule("E3", start, src[start:e], "")
        elif name in ("debug_assert", "assert"):
            cond = tok_text(src, toks, args[0][0], args[0][1])
            rep = f"vx_assert({cond})"
            # two edits around the condition, so that rewrites inside the condition (closure annotations, E9 subs) still apply
            cs, ce = toks[args[0][0]].start, toks[args[0][1] - 1].end
            ed.add(start, cs, "vx_assert(", "E5", name); ed.add(ce, end, ")", "E5", name)
            covered.append((start, cs)); covered.append((ce, end)); logrule("E5", start, src[start:end], rep)
        elif name in ("debug_assert_eq", "assert_eq", "debug_assert_ne", "assert_ne"):
            a = tok_text(src, toks, args[0][0], args[0][1]); b = tok_text(src, toks, args[1][0], args[1][1])
            opx = "==" if name.endswith("_eq") else "!="
            rep = f"vx_assert(({a}) {opx} ({b}))"
            ed.add(start, end, rep, "E5", name); covered.append((start, end)); logrule("E5", start, src[start:end], rep)
        elif name in ("unreachable", "panic", "unimplemented", "todo"):
            rep = "vx_unreachable()"
            ed.add(start, end, rep, "E5", name); covered.append((start, end)); logrule("E5", start, src[start:end], rep)
        elif name in fn_macros:
            rep = fn_macros[name]
            if "$args" in rep:
                rep = rep.replace("$args", tok_text(src, toks, op + 1, cl))
            ed.add(start, end, rep, "E4", name); covered.append((start, end)); logrule("E4", start, src[start:end], rep)
    # .expect("..") -> .unwrap()
    for k in range(tlo, thi - 3):
        if toks[k].kind == "punct" and toks[k].text == "." and toks[k + 1].kind == "ident" and toks[k + 1].text == "expect" \
                and toks[k + 2].kind == "open" and toks[k + 2].text == "(":
            cl = br[k + 2]
            s, e = toks[k + 1].start, toks[cl].end
            if is_covered(s): continue
            ed.add(s, e, "unwrap()", "E5", "expect"); logrule("E5", s, src[s:e], "unwrap()")

    # --- global textual substitutions (type map etc.) ---
    for (rule, a, b) in glob["sub_all"]:
        for (s, e) in find_text(src, lo, hi, a, "all", fs.name):
            if is_covered(s): continue
            ed.add(s, e, b, rule, "sub-all"); logrule(rule, s, src[s:e], b)

    # --- per function directives ---
    loop_spec = {}
    loop_for = {}
    for (kw, rest, payload, tl) in fs.directives:
        what = f"{fs.name} (template line {tl})"
        if kw in ("block", "exprblock", "closureexpr", "span", "nocanary", "props", "macro"):
            continue
        if kw == "localmacro":
            # E4: a `macro_rules!` defined inside the function, single arm with `$x:ty`/`$x:expr`/`$x:ident` parameters, is
            # expanded textually at every invocation (what rustc does); the definition is dropped. Payload lines
            # `"find" => "replace"` are applied to every expansion (all occurrences, token matching).
            mname = rest.split()[0]
            # definition: macro_rules ! name { (params) => {{ body }} ; }
            dk = None
            for k in range(tlo, thi - 3):
                if toks[k].kind == "ident" and toks[k].text == "macro_rules" and toks[k + 1].text == "!" and toks[k + 2].text == mname and toks[k + 3].kind == "open":
                    dk = k; break
            if dk is None:
                raise VxError(f"lost anchor: {what}: local macro `{mname}` not found")
            dopen = dk + 3; dclose = br[dopen]
            popen = dopen + 1
            if not (toks[popen].kind == "open" and toks[popen].text == "("):
                raise VxError(f"unsupported: local macro `{mname}`: expected a single `( params ) => {{ .. }}` arm")
            pclose = br[popen]
            params = []
            k = popen + 1
            while k < pclose:
                if toks[k].kind == "punct" and toks[k].text == "$" and toks[k + 1].kind == "ident":
                    params.append(toks[k + 1].text); k += 2
                    continue
                k += 1
            # arrow then body group
            bopen = pclose + 1
            while bopen < dclose and toks[bopen].kind != "open": bopen += 1
            bclose = br[bopen]
            if any(t.kind == "open" and t.text == "(" and kk > bclose for kk, t in enumerate(toks[bclose:dclose], bclose)):
                raise VxError(f"unsupported: local macro `{mname}` has more than one arm")
            body = src[toks[bopen].start:toks[bclose].end]
            # `{{ .. }}` -> a block expression `{ .. }`
            if toks[bopen + 1].kind == "open" and toks[bopen + 1].text == "{" and br[bopen + 1] == bclose - 1:
                body = src[toks[bopen + 1].start:toks[bclose - 1].end]
            dend = toks[dclose].end
            ed.add(toks[dk].start, dend, "", "E4", "localmacro def"); covered.append((toks[dk].start, dend))
            logrule("E4", toks[dk].start, f"macro_rules! {mname} {{..}}", "(expanded at its invocations)")
            posts = []
            for pl in payload:
                pq = [x[1] for x in parse_quoted(pl) if x[0] == "q"]
                if len(pq) == 2: posts.append(pq)
            for m in macros:
                if m["name"] != mname or toks[m["tok"]].start < dend and toks[m["tok"]].start >= toks[dk].start: continue
                if m["tok"] == dk + 2: continue
                args = split_top_commas(toks, br, m["open"] + 1, m["close"])
                if len(args) != len(params):
                    raise VxError(f"unsupported: local macro `{mname}` invoked with {len(args)} arguments, {len(params)} parameters")
                exp = body
                for pn, (a0, a1) in zip(params, args):
                    exp = re.sub(r"\$" + pn + r"\b", tok_text(src, toks, a0, a1).strip(), exp)
                for (fa, fb) in posts:
                    while True:
                        hits = find_text(exp, 0, len(exp), fa, "all", what)
                        if not hits: break
                        s1, e1 = hits[0]
                        exp = exp[:s1] + fb + exp[e1:]
                        if fa in fb: break
                s0, e0 = toks[m["tok"]].start, toks[m["close"]].end
                ed.add(s0, e0, exp, "E4", "localmacro"); covered.append((s0, e0)); logrule("E4", s0, src[s0:e0], exp[:200])
            continue
        if kw == "addarg":
            # E13: `//@addarg "self.sender.send" "&mut self.hist"`: every call of that path gets the extra (ghost state)
            # argument appended; zero-width, so it composes with any other rewrite of the call
            p_ = parse_quoted(rest)
            qs_ = [x[1] for x in p_ if x[0] == "q"]
            path = [t.text for t in rlex.lex(qs_[0])]
            n_ = len(path)
            for k in range(tlo, thi - n_):
                if all(toks[k + d].text == path[d] for d in range(n_)) and toks[k + n_].kind == "open" and toks[k + n_].text == "(" \
                        and not (k > tlo and toks[k - 1].kind == "punct" and toks[k - 1].text == "."):
                    o = k + n_; c = br[o]
                    at = toks[c].start
                    extra = qs_[1] if c == o + 1 else ", " + qs_[1]
                    ed.add(at, at, extra, "E13", "addarg"); logrule("E13", toks[k].start, src[toks[k].start:toks[c].end], f"... {extra})")
            continue
        if kw == "refarg":
            # E1: `impl Borrow<T>` parameters are `&T` in the Verus signature: every by-value argument of the named methods
            # is passed as `&(arg)` (a `&&T` argument coerces to `&T`, so references stay correct)
            names = rest.split()
            for k in range(tlo, thi - 2):
                if toks[k].kind == "punct" and toks[k].text == "." and toks[k + 1].kind == "ident" and toks[k + 1].text in names \
                        and toks[k + 2].kind == "open" and toks[k + 2].text == "(":
                    o = k + 2; c = br[o]
                    if c == o + 1: continue
                    if toks[o + 1].kind == "punct" and toks[o + 1].text == "&": continue
                    # single argument only
                    kk = o + 1; multi = False
                    while kk < c:
                        if toks[kk].kind == "open": kk = br[kk] + 1; continue
                        if toks[kk].kind == "punct" and toks[kk].text == ",": multi = True; break
                        kk += 1
                    if multi: continue
                    s0, e0 = toks[o + 1].start, toks[c - 1].end
                    if is_covered(s0): continue
                    ed.add(s0, s0, "&(", "E1", "refarg"); ed.add(e0, e0, ")", "E1", "refarg"); logrule("E1", s0, src[s0:e0], "&(" + src[s0:e0] + ")")
            continue
        if kw == "binops":
            # E9-op on every statement of the body that contains `OP &ident`
            k = tlo
            while k < thi - 2:
                t = toks[k]
                if t.kind == "punct" and t.text in OPNAMES and toks[k + 1].kind == "punct" and toks[k + 1].text == "&" and toks[k + 2].kind == "ident" \
                        and (toks[k - 1].kind == "ident" or (toks[k - 1].kind == "close" and toks[k - 1].text == ")") or (toks[k - 1].kind == "punct" and toks[k - 1].text == "?")):
                    # enclosing statement: back to the previous `=`, `;`, `{` at this nesting level, forward to the next `;`
                    a = k - 1; depth = 0
                    while a > tlo:
                        ta = toks[a]
                        if ta.kind == "close": depth += 1
                        elif ta.kind == "open":
                            if depth == 0: break
                            depth -= 1
                        elif depth == 0 and ta.kind == "punct" and ta.text in ("=", ";"): break
                        a -= 1
                    a += 1
                    b = k; depth = 0
                    while b < thi:
                        tb = toks[b]
                        if tb.kind == "open": depth += 1
                        elif tb.kind == "close":
                            if depth == 0: break
                            depth -= 1
                        elif depth == 0 and tb.kind == "punct" and tb.text == ";": break
                        b += 1
                    s0, e0 = toks[a].start, toks[b - 1].end
                    new_text, cnt = desugar_binops(src[s0:e0])
                    if cnt and not is_covered(s0):
                        ed.add(s0, e0, new_text, "E9-op", "binops"); logrule("E9-op", s0, src[s0:e0], new_text)
                        covered.append((s0, e0))
                    k = b
                k += 1
            continue
        if kw == "mutself":
            # E16: `mut self` parameter (unsupported by Verus) -> `self` rebound to a mutable local, body tokens renamed
            for k in range(tlo, thi):
                if toks[k].kind == "ident" and toks[k].text == "self" and not is_covered(toks[k].start):
                    ed.add(toks[k].start, toks[k].end, "__self", "E16", "mutself")
            ed.add(lo, lo, " let mut __self = self; ", "E16", "mutself")
            logrule("E16", lo, "mut self", "self; let mut __self = self; (body: self -> __self)")
            continue
        if kw == "opaque":
            continue
        elif kw == "loopend":
            # ghost text inserted at the very end of the n-th loop's body (E13)
            n_ = int(rest.split()[0])
            if n_ < 1 or n_ > len(loops):
                raise VxError(f"lost anchor: {fs.name}: loop #{n_} not found ({len(loops)} loops in body)")
            at = toks[loops[n_ - 1]["close"]].start
            ed.add(at, at, "\n" + "\n".join(payload) + "\n", "E13", f"loop end #{n_}")
        elif kw == "afterloop":
            # ghost text inserted directly after the n-th loop's closing brace (E13)
            n_ = int(rest.split()[0])
            if n_ < 1 or n_ > len(loops):
                raise VxError(f"lost anchor: {fs.name}: loop #{n_} not found ({len(loops)} loops in body)")
            at = toks[loops[n_ - 1]["close"]].end
            ed.add(at, at, "\n" + "\n".join(payload) + "\n", "E13", f"after loop #{n_}")
        elif kw == "loopstart":
            # ghost text inserted at the very beginning of the n-th loop's body, after the loop variable binding (E13)
            n_ = int(rest.split()[0])
            if n_ < 1 or n_ > len(loops):
                raise VxError(f"lost anchor: {fs.name}: loop #{n_} not found ({len(loops)} loops in body)")
            at = toks[loops[n_ - 1]["open"]].end
            ed.add(at, at, "\n" + "\n".join(payload) + "\n", "E13", f"loop start #{n_}")
        elif kw == "loop":
            loop_spec[int(rest.split()[0])] = "\n".join(payload)
        elif kw == "for":
            parts = rest.split()
            loop_for[int(parts[0])] = parts[1:]
        elif kw in ("sub", "drop", "ascribe"):
            p = parse_quoted(rest)
            words = [x[1] for x in p if x[0] == "w"]
            qs = [x[1] for x in p if x[0] == "q"]
            rule = words[0] if words and re.match(r"^E\d+$", words[0]) else {"drop": "E1", "ascribe": "E12"}.get(kw, "E9")
            nth = 0
            for w in words:
                if w.isdigit(): nth = int(w)
                if w == "all": nth = "all"
            if kw == "drop":
                a, b = qs[0], ""
            else:
                if len(qs) == 1 and payload:
                    a, b = qs[0], "\n".join(payload)
                elif len(qs) == 2:
                    a, b = qs
                else:
                    raise VxError(f"{what}: {kw} needs two strings")
            try:
                spans = find_text(src, lo, hi, a, nth, what)
            except VxError as e:
                # a rewrite whose construct is absent has nothing to rewrite: skipped and reported (never fatal)
                SKIPPED.append({"fn": fs.fid(), "kind": kw, "rule": rule, "text": a[:120], "why": str(e)[:200]})
                continue
            if nth != "all": spans = [spans]
            for (s, e) in spans:
                if nth == "all" and is_covered(s): continue
                ed.add(s, e, b, rule, kw); logrule(rule, s, src[s:e], b)
        elif kw == "closure":
            # E15: `//@closure "|x|" [n] => "|x: T| -> (r: R) ensures ..."`: annotate a closure's header; an expression body
            # (which extends to the end of the enclosing argument list) is wrapped in braces as Verus requires
            p = parse_quoted(rest)
            words = [x[1] for x in p if x[0] == "w"]
            qs = [x[1] for x in p if x[0] == "q"]
            nth = 0
            for w in words:
                if w.isdigit(): nth = int(w)
            try:
                s0, e0 = find_text(src, lo, hi, qs[0], nth, what)
            except VxError as ex:
                SKIPPED.append({"fn": fs.fid(), "kind": kw, "rule": "E15", "text": qs[0][:120], "why": str(ex)[:200]})
                continue
            # innermost bracket pair enclosing the closure header
            enc = None
            for o, c in br.items():
                if toks[o].start < s0 and toks[c].start >= e0 and (enc is None or toks[o].start > toks[enc[0]].start):
                    enc = (o, c)
            kb = next(k for k in range(tlo, thi) if toks[k].start >= e0)
            if toks[kb].kind == "open" and toks[kb].text == "{":
                ed.add(s0, e0, qs[1], "E15", "closure"); logrule("E15", s0, src[s0:e0], qs[1])
            else:
                # body ends at the enclosing close bracket or at a top-level comma before it
                endk = enc[1]; k = kb
                while k < enc[1]:
                    if toks[k].kind == "open": k = br[k] + 1; continue
                    if toks[k].kind == "punct" and toks[k].text == ",": endk = k; break
                    k += 1
                be = toks[endk].start
                body = src[e0:be]
                ed.add(s0, be, qs[1] + " {" + body + " }", "E15", "closure"); logrule("E15", s0, src[s0:be], qs[1] + " {" + body.strip() + " }")
        elif kw == "hint":
            p = parse_quoted(rest)
            words = [x[1] for x in p if x[0] == "w"]
            qs = [x[1] for x in p if x[0] == "q"]
            where = words[0]
            nth = 0
            for w in words[1:]:
                if w.isdigit(): nth = int(w)
                if w == "last": nth = "last"
            text = "\n".join(payload) + "\n"
            if where == "entry":
                ed.add(lo, lo, "\n" + text, "E13", "hint entry")
            elif where == "exit":
                ed.add(hi, hi, "\n" + text, "E13", "hint exit")
            else:
                try:
                    s, e = find_text(src, lo, hi, qs[0], nth, what)
                except VxError as ex:
                    LOST_HINTS.append({"fn": fs.fid(), "anchor": qs[0][:120], "why": str(ex)[:200]})
                    continue
                at = s if where == "before" else e
                ed.add(at, at, "\n" + text, "E13", f"hint {where}")
            log.append({"fn": fs.fid(), "file": fs.rel, "rule": "E13", "line": line_of(src, lo), "note": f"ghost hint {where} {qs[0] if qs else ''}"[:200]})
        else:
            raise VxError(f"{what}: unknown directive {kw}")

    for n in sorted(set(loop_spec) | set(loop_for)):
        sp = loop_spec.get(n, "")
        if n < 1 or n > len(loops):
            raise VxError(f"lost anchor: {fs.name}: loop #{n} not found ({len(loops)} loops in body)")
        L = loops[n - 1]
        kwt, op = L["kw_tok"], L["open"]
        if n in loop_for:
            if L["kw"] != "for":
                raise VxError(f"lost anchor: {fs.name}: loop #{n} is not a `for` loop")
            idx = f"__i{n}"
            head, note = rewrite_for(src, toks, br, L, sp, idx, log, kind_hint=loop_for[n])
            s, e = toks[kwt].start, toks[op].end
            ed.add(s, e, head, "E7", note); logrule("E7", s, src[s:e], head.split("\n")[0] + " ...")
        else:
            at = toks[op].start
            ed.add(at, at, "\n" + sp + "\n", "E13", f"loop spec #{n}")
    segs = ed.render()
    return {"src": src, "segs": segs, "orig_text": orig_text, "real_sig": real_sig, "item_line": line_of(src, toks[item.tok_lo].start),
            "end_line": line_of(src, toks[item.body_close].end), "body_lo": lo}

def check_sig(fs, real_sig):
    """E1: parameter names and order must agree between the real signature and the Verus one."""
    def params(sig):
        t = rlex.lex(sig)
        br = rlex.match_brackets([x for x in t]) if True else None
        # first '(' after fn name
        k = 0
        while k < len(t) and not (t[k].kind == "ident" and t[k].text == "fn"):
            k += 1
        while k < len(t) and not (t[k].kind == "open" and t[k].text == "("):
            if t[k].kind == "punct" and t[k].text == "<":
                # skip generics
                d = 0
                while k < len(t):
                    if t[k].kind == "punct" and t[k].text == "<": d += 1
                    if t[k].kind == "punct" and t[k].text == ">": d -= 1
                    if t[k].kind == "punct" and t[k].text == ">>": d -= 2
                    k += 1
                    if d <= 0: break
                continue
            k += 1
        if k >= len(t): return None
        close = br[k]
        names = []
        # top-level commas only: commas inside `<..>` of a type do not separate parameters
        segs = []; start_ = k + 1; i_ = k + 1; ang = 0
        while i_ < close:
            x = t[i_]
            if x.kind == "open": i_ = br[i_] + 1; continue
            if x.kind == "punct":
                if x.text == "<": ang += 1
                elif x.text == ">" and not (i_ > 0 and t[i_ - 1].kind == "punct" and t[i_ - 1].text == "-" and t[i_ - 1].end == x.start): ang = max(0, ang - 1)
                elif x.text == ">>": ang = max(0, ang - 2)
                elif x.text == "," and ang == 0:
                    segs.append((start_, i_)); start_ = i_ + 1
            i_ += 1
        if start_ < close: segs.append((start_, close))
        for (a, b) in segs:
            seg = t[a:b]
            # skip attributes
            txt = [x.text for x in seg]
            if "self" in txt[:4] and ":" not in txt[:txt.index("self") + 2][-1:]:
                names.append("self"); continue
            # name before first ':' at top level
            nm = None
            for x in seg:
                if x.kind == "punct" and x.text == ":":
                    break
                if x.kind == "ident" and x.text not in ("mut", "ref"):
                    nm = x.text
            names.append(nm)
        return names
    vs = "\n".join(fs.sig)
    a, b = params(real_sig), params(vs)
    if a is None or b is None:
        raise VxError(f"E1: cannot parse signature of {fs.name}")
    return a, b

def main():
    tpl, repo, out_rs, out_map = sys.argv[1:5]
    canary = "--canary" in sys.argv[5:]
    canary_only = None
    for a in sys.argv[5:]:
        if a.startswith("--canary-only="): canary_only = a.split("=", 1)[1]
    canary_fns = []
    canary_single = []
    dup_ranges = {}
    log = []
    try:
        glob, parts = parse_template(tpl)
        out_lines = []     # (text_line, origin) origin = None | (file, line)
        fns = []
        for kind, val in parts:
            if kind == "text":
                out_lines.append((val, None))
                continue
            if kind == "const":
                cname, crel, ctl = val
                csrc = load_src(repo, crel)[0]
                mm = re.search(r"^[ \t]*(?:pub(?:\([a-z]+\))?\s+)?const\s+" + re.escape(cname) + r"\s*:[^;]*;", csrc, re.M)
                if not mm:
                    raise VxError(f"lost anchor: const {cname} not found in {crel}")
                ctext = re.sub(r"^\s*pub(\([a-z]+\))?\s+", "", mm.group(0).strip())
                out_lines.append(("pub " + ctext, (crel, line_of(csrc, mm.start()))))
                log.append({"fn": "const " + cname, "file": crel, "rule": "verbatim", "line": line_of(csrc, mm.start()), "before": mm.group(0).strip(), "after": "pub " + ctext})
                continue
            fs = val
            r = process_fn(repo, glob, fs, log)
            block_mode = any(d[0] in ("block", "exprblock", "closureexpr", "span") for d in fs.directives)
            if not block_mode:
                a, b = check_sig(fs, r["real_sig"])
                # an unnamed parameter `_` of the real signature may be given any `_`-prefixed name (Verus needs an identifier)
                same = len(a) == len(b) and all(x == y or (x == "_" and (y or "").startswith("_")) for x, y in zip(a, b))
                if not same:
                    raise VxError(f"lost anchor (E1): parameters of {fs.container}::{fs.name} are {a} in /repo but {b} in the contract")
            start_gen = len(out_lines) + 1
            dup_sig = None
            is_trait_impl = re.match(r"^impl\b.*\bfor\b", fs.container) is not None
            def falsify(sig_txt):
                if re.search(r"\bensures\b", sig_txt):
                    return re.sub(r"\bensures\b", "ensures false,", sig_txt, count=1)
                return sig_txt.rstrip().rstrip(",") + "\n ensures false"
            if not any(d[0] == "nocanary" for d in fs.directives):
                if canary_only is not None:
                    if canary_only == fs.fid():
                        fs.sig = falsify("\n".join(fs.sig)).split("\n")
                        canary_fns.append(fs.fid())
                elif canary and not is_trait_impl:
                    st = "\n".join(fs.sig)
                    st2 = re.sub(r"\bfn\s+([A-Za-z_][A-Za-z0-9_]*)", lambda mm: "fn " + mm.group(1) + "__canary", st, count=1)
                    dup_sig = falsify(st2).split("\n")
                    canary_fns.append(fs.fid())
                elif canary and is_trait_impl:
                    canary_single.append(fs.fid())
            for s in fs.sig:
                out_lines.append((s, (fs.rel, r["item_line"])))
            out_lines.append(("{", (fs.rel, r["item_line"])))
            # body segments -> lines with origin
            cur_line_txt, cur_origin = "", None
            src = r["src"]
            last_origin_line = r["item_line"]
            for (text, off) in r["segs"]:
                pos = 0
                for ch_i, piece in enumerate(text.split("\n")):
                    if ch_i > 0:
                        out_lines.append((cur_line_txt, (fs.rel, cur_origin if cur_origin is not None else last_origin_line)))
                        cur_line_txt, cur_origin = "", None
                    if off is not None:
                        ol = line_of(src, off + pos)
                        if cur_origin is None and piece.strip():
                            cur_origin = ol
                        last_origin_line = ol
                    cur_line_txt += piece
                    pos += len(piece) + 1
            out_lines.append((cur_line_txt, (fs.rel, cur_origin if cur_origin is not None else last_origin_line)))
            out_lines.append(("}", (fs.rel, r["end_line"])))
            end_gen = len(out_lines)
            if dup_sig is not None:
                body_lines = out_lines[start_gen - 1 + len(fs.sig):end_gen]
                d0 = len(out_lines) + 1
                for sl in dup_sig:
                    out_lines.append((sl, None))
                out_lines.extend([(t, None) for (t, _) in body_lines])
                dup_ranges[fs.fid()] = [d0, len(out_lines)]
            gen_text = "\n".join(x[0] for x in out_lines[start_gen - 1:end_gen])
            # diff between original and verified text (what extraction changed)
            body_gen = "".join(t for (t, _) in r["segs"])
            fns.append({
                "fn": fs.fid(),
                "name": fs.name, "file": fs.rel, "line": r["item_line"], "end_line": r["end_line"],
                "sha256": hashlib.sha256(r["orig_text"].encode()).hexdigest(),
                "gen_lines": [start_gen, end_gen],
                "real_signature": " ".join(r["real_sig"].split()),
                "block_mode": block_mode,
            })
        text = "\n".join(x[0] for x in out_lines) + "\n"
        open(out_rs, "w").write(text)
        linemap = [None if o is None else [o[0], o[1]] for (_, o) in out_lines]
        json.dump({"unit": glob["unit"], "serves": glob["serves"], "functions": fns, "rewrites": log, "linemap": linemap, "skipped_rewrites": SKIPPED, "lost_hints": LOST_HINTS, "canary_fns": canary_fns, "canary_single": canary_single, "canary_ranges": dup_ranges}, open(out_map, "w"))
        print(f"vx: {glob['unit']}: {len(fns)} functions extracted, {len(log)} rule instances")
        for sk in SKIPPED: print(f"vx: note: rewrite not applied in {sk['fn']}: {sk['why']}")
        for lh in LOST_HINTS: print(f"vx: note: hint anchor lost in {lh['fn']}: {lh['why']}")
    except VxError as e:
        print(f"vx: UNDECIDED {e}")
        sys.exit(2)

if __name__ == "__main__":
    main()
