#!/usr/bin/env python3
"""regenerates /verif/MANIFEST.json from vx/claims.json (claimed properties) and vx/not_applicable.json"""
import json, os
V = os.path.dirname(os.path.dirname(os.path.abspath(__file__)))
props = [json.loads(l) for l in open(os.path.join(V, "properties.jsonl"))]
claims = json.load(open(os.path.join(V, "vx", "claims.json")))
na = json.load(open(os.path.join(V, "vx", "not_applicable.json")))
hooks = json.load(open(os.path.join(V, "vx", "hooks.json")))
m = {"version": 1, "setup_cmd": "./setup.sh",
     "hooks": {"guard": "lumina_verif",
               "enable": "RUSTFLAGS='--cfg lumina_verif' LUMINA_VERIF_DIR=/verif (native witness finders / bounded stand-ins: cargo test; Kani harnesses: cargo kani)",
               "baseline_off_cmd": "cd /repo && cargo nextest run --workspace --no-fail-fast --offline",
               "source_commits": hooks["source_commits"], "add_only": True},
     "engines": [{"name": "kani", "path": "/verif/kani", "serves_properties": sorted(k for k in claims if claims[k].get("engine") == "kani"),
                  "kind_free_text": "Kani 0.68 / CBMC 6.11 harnesses over full symbolic input domains, compiled into the real crate through one cfg(kani)+cfg(lumina_verif) include (kani/types/mod.rs), run by vx/check.py; loops bounded by constants of the code with unwinding assertions (complete proofs)"},
                 {"name": "vx+verus", "path": "/verif/vx", "serves_properties": sorted(k for k in claims if claims[k].get("engine", "vx+verus") == "vx+verus"),
                  "kind_free_text": "mechanical byte-exact extraction of /repo functions (vx.py, rules E1-E16) spliced with contract overlays (specs/*.rs) into one Verus file per unit, discharged by Verus 0.2026.09.13 / Z3; canary (ensures false) vacuity guard; witness finders on the real code (native enumerators, Kani)"}],
     "checks": [], "not_applicable": []}
m["engines"] = [e for e in m["engines"] if e["serves_properties"]]
for p in props:
    pid = p["id"]
    if pid in claims:
        c = claims[pid]
        m["checks"].append({"property_id": pid, "quick_cmd": f"./check {pid} quick", "thorough_cmd": f"./check {pid} thorough",
                            "evidence_file": f"/verif/evidence/{pid}.json", "replay_cmd_template": "./check --replay {path}", "engine": c.get("engine", "vx+verus"),
                            "level_claimed": {"category": c.get("category", "proof"), "text": c["text"], "design_ref": f"DESIGN.md §5 {pid}"},
                            "level_note": c["note"], "technique": c.get("technique", "contract-based deductive verification (Verus) of mechanically extracted real functions")})
    else:
        if pid not in na:
            raise SystemExit(f"{pid} neither claimed nor not_applicable")
        m["not_applicable"].append({"property_id": pid, "reason": na[pid]})
json.dump(m, open(os.path.join(V, "MANIFEST.json"), "w"), indent=1)
print("claimed:", sorted(claims), "\nnot applicable:", len(m["not_applicable"]))
