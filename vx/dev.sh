#!/bin/bash
# developer loop: extract one unit and run verus on it, printing errors compactly. usage: vx/dev.sh <unit> [extra verus args]
u=$1; shift
cd /verif
python3 vx/vx.py specs/$u.rs /repo work/$u.rs work/$u.map.json || exit 2
verus work/$u.rs --multiple-errors 8 --triggers-mode silent --time "$@" 2>&1 | grep -v "^note: \|^  *= note" | sed "/^verus-build-info/,\$d" | tail -${TAILN:-80}
