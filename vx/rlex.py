"""Minimal Rust lexer + structural scanner used by vx.

Only what extraction needs: tokens with exact byte offsets (so that every piece
of text vx emits is a verbatim slice of the source file), bracket matching,
item discovery (fn inside impl/trait/mod), loop discovery inside a body and
macro-invocation discovery.  It never pretty-prints.
"""
import re

class Tok:
    __slots__ = ("kind", "text", "start", "end")
    def __init__(self, kind, text, start, end):
        self.kind, self.text, self.start, self.end = kind, text, start, end
    def __repr__(self):
        return f"Tok({self.kind},{self.text!r},{self.start})"

IDENT_RE = re.compile(r"[A-Za-z_][A-Za-z0-9_]*")
NUM_RE = re.compile(r"[0-9][0-9A-Za-z_]*(\.[0-9][0-9A-Za-z_]*)?")
PUNCT3 = ("<<=", ">>=", "...", "..=")
PUNCT2 = ("::", "->", "=>", "==", "!=", "<=", ">=", "&&", "||", "+=", "-=", "*=", "/=", "%=", "^=", "&=", "|=", "<<", ">>", "..")

class LexError(Exception):
    pass

def lex(src, keep_comments=False):
    """Return list of Tok.  kinds: ident, num, str, char, lifetime, punct, open, close, comment"""
    toks = []
    i, n = 0, len(src)
    while i < n:
        c = src[i]
        if c.isspace():
            i += 1
            continue
        if src.startswith("//", i):
            j = src.find("\n", i)
            if j < 0:
                j = n
            if keep_comments:
                toks.append(Tok("comment", src[i:j], i, j))
            i = j
            continue
        if src.startswith("/*", i):
            depth, j = 1, i + 2
            while j < n and depth:
                if src.startswith("/*", j):
                    depth += 1; j += 2
                elif src.startswith("*/", j):
                    depth -= 1; j += 2
                else:
                    j += 1
            if keep_comments:
                toks.append(Tok("comment", src[i:j], i, j))
            i = j
            continue
        # raw strings / byte strings
        m = re.compile(r"(b|c)?r(#*)\"").match(src, i)
        if m:
            hashes = m.group(2)
            close = '"' + hashes
            j = src.find(close, m.end())
            if j < 0:
                raise LexError(f"unterminated raw string at {i}")
            j += len(close)
            toks.append(Tok("str", src[i:j], i, j))
            i = j
            continue
        if c == '"' or (c in "bc" and i + 1 < n and src[i + 1] == '"'):
            j = i + (2 if c != '"' else 1)
            while j < n and src[j] != '"':
                if src[j] == "\\":
                    j += 1
                j += 1
            j += 1
            toks.append(Tok("str", src[i:j], i, j))
            i = j
            continue
        if c == "'" or (c == "b" and i + 1 < n and src[i + 1] == "'"):
            k = i + (1 if c == "b" else 0)
            # char literal or lifetime
            if k + 1 < n and src[k + 1] == "\\":
                j = k + 2
                while j < n and src[j] != "'":
                    j += 1
                j += 1
                toks.append(Tok("char", src[i:j], i, j))
                i = j
                continue
            if k + 2 < n and src[k + 2] == "'":
                j = k + 3
                toks.append(Tok("char", src[i:j], i, j))
                i = j
                continue
            m = IDENT_RE.match(src, k + 1)
            if m and c == "'":
                toks.append(Tok("lifetime", src[i:m.end()], i, m.end()))
                i = m.end()
                continue
            # multi-byte char literal like '✓'
            j = src.find("'", k + 1)
            if j < 0:
                raise LexError(f"bad char literal at {i}")
            toks.append(Tok("char", src[i:j + 1], i, j + 1))
            i = j + 1
            continue
        m = IDENT_RE.match(src, i)
        if m:
            # raw identifiers r#foo
            toks.append(Tok("ident", m.group(0), i, m.end()))
            i = m.end()
            continue
        m = NUM_RE.match(src, i)
        if m:
            end = m.end()
            # don't swallow `..` of ranges: "0..5" -> NUM_RE with \.[0-9] only matches "0" then '.'
            toks.append(Tok("num", src[i:end], i, end))
            i = end
            continue
        if c in "([{":
            toks.append(Tok("open", c, i, i + 1)); i += 1; continue
        if c in ")]}":
            toks.append(Tok("close", c, i, i + 1)); i += 1; continue
        for p in PUNCT3:
            if src.startswith(p, i):
                toks.append(Tok("punct", p, i, i + 3)); i += 3; break
        else:
            for p in PUNCT2:
                if src.startswith(p, i):
                    toks.append(Tok("punct", p, i, i + 2)); i += 2; break
            else:
                toks.append(Tok("punct", c, i, i + 1)); i += 1
    return toks

PAIR = {"(": ")", "[": "]", "{": "}"}

def match_brackets(toks):
    """dict open-index -> close-index (token indices)."""
    stack, res = [], {}
    for idx, t in enumerate(toks):
        if t.kind == "open":
            stack.append(idx)
        elif t.kind == "close":
            if not stack:
                raise LexError(f"unbalanced close at byte {t.start}")
            o = stack.pop()
            if PAIR[toks[o].text] != t.text:
                raise LexError(f"mismatched bracket at byte {t.start}")
            res[o] = idx
    if stack:
        raise LexError("unbalanced open bracket")
    return res

def norm(s):
    """whitespace-insensitive normal form of a token text for comparisons"""
    return " ".join(t.text for t in lex(s))

class Item:
    def __init__(self, kind, header, name, tok_lo, tok_hi, body_open, body_close, container):
        self.kind = kind            # 'fn' | 'impl' | 'trait' | 'mod'
        self.header = header        # normalized header text (impl ... / trait ...)
        self.name = name
        self.tok_lo, self.tok_hi = tok_lo, tok_hi  # token index range [lo, hi] inclusive (from first attr/kw to closing brace or ';')
        self.body_open, self.body_close = body_open, body_close  # token indices of { } or None
        self.container = container  # normalized header of enclosing impl/trait ('' for top level / mod)

FN_QUALS = {"pub", "const", "async", "unsafe", "extern", "default", "crate", "super", "in", "self"}

def scan_items(src, toks=None, br=None):
    """Find all fn items (free, in impl, in trait, in nested mod) with their containers."""
    if toks is None:
        toks = lex(src)
    if br is None:
        br = match_brackets(toks)
    items = []

    def scan(lo, hi, container):
        i = lo
        while i < hi:
            t = toks[i]
            if t.kind == "open":
                # skip attribute brackets / stray groups at item level
                i = br[i] + 1
                continue
            if t.kind == "ident" and t.text in ("impl", "trait", "mod") and _item_position(toks, i):
                # find the opening brace of the item (skip where clauses / generics)
                j = i + 1
                while j < hi and not (toks[j].kind == "open" and toks[j].text == "{") and not (toks[j].kind == "punct" and toks[j].text == ";"):
                    if toks[j].kind == "open":
                        j = br[j] + 1
                    else:
                        j += 1
                if j >= hi or toks[j].text == ";":
                    i = j + 1
                    continue
                header = " ".join(x.text for x in toks[i:j])
                close = br[j]
                if t.text == "mod":
                    scan(j + 1, close, container)
                else:
                    items.append(Item(t.text, header, None, i, close, j, close, container))
                    scan(j + 1, close, header)
                i = close + 1
                continue
            if t.kind == "ident" and t.text == "fn" and i + 1 < hi and toks[i + 1].kind == "ident":
                name = toks[i + 1].text
                # walk back over qualifiers
                s = i
                while s - 1 >= lo and ((toks[s - 1].kind == "ident" and toks[s - 1].text in FN_QUALS) or toks[s - 1].kind == "str"
                                       or (toks[s - 1].kind == "close" and toks[s - 1].text == ")" and _is_pub_paren(toks, br, s - 1))):
                    if toks[s - 1].kind == "close":
                        s = _open_of(br, s - 1) - 1  # the 'pub' before '('
                    else:
                        s -= 1
                # find body or ';'
                j = i + 2
                while j < hi and not (toks[j].kind == "open" and toks[j].text == "{") and not (toks[j].kind == "punct" and toks[j].text == ";"):
                    if toks[j].kind == "open":
                        j = br[j] + 1
                    else:
                        j += 1
                if j >= hi:
                    break
                if toks[j].text == ";":
                    items.append(Item("fn", None, name, s, j, None, None, container))
                    i = j + 1
                else:
                    close = br[j]
                    items.append(Item("fn", None, name, s, close, j, close, container))
                    i = close + 1
                continue
            if t.kind == "ident" and t.text == "macro_rules":
                # skip macro definition
                j = i + 1
                while j < hi and toks[j].kind != "open":
                    j += 1
                if j < hi:
                    i = br[j] + 1
                    continue
            i += 1

    scan(0, len(toks), "")
    return toks, br, items

def _open_of(br, close_idx):
    for o, c in br.items():
        if c == close_idx:
            return o
    raise KeyError

def _is_pub_paren(toks, br, close_idx):
    o = _open_of(br, close_idx)
    return o - 1 >= 0 and toks[o - 1].kind == "ident" and toks[o - 1].text == "pub"

def _item_position(toks, i):
    """`impl`/`trait`/`mod` keyword used as an item (not `impl Trait` in type position)."""
    if i == 0:
        return True
    p = toks[i - 1]
    if p.kind == "close" or (p.kind == "punct" and p.text in (";",)) or (p.kind == "open" and p.text == "{"):
        return True
    if p.kind == "ident" and p.text in ("pub", "unsafe", "default", "crate"):
        return True
    if p.kind == "close" and p.text == "]":
        return True
    return False

def find_loops(toks, br, lo, hi):
    """Loops (for/while/loop) in token range (lo,hi), in source order, including nested ones
    but not those inside closures' nested fn items.  Returns list of dicts with token indices."""
    loops = []
    i = lo
    while i < hi:
        t = toks[i]
        if t.kind == "ident" and t.text in ("for", "while", "loop"):
            prev = toks[i - 1] if i > lo else None
            # statement/expression position: after ; { } or ) or = or label ':' etc.  Exclude `impl X for Y` and HRTB `for<`.
            nxt = toks[i + 1] if i + 1 < hi else None
            if t.text == "for" and nxt is not None and nxt.kind == "punct" and nxt.text == "<":
                i += 1; continue
            # find body brace
            j = i + 1
            while j < hi and not (toks[j].kind == "open" and toks[j].text == "{"):
                if toks[j].kind == "open":
                    j = br[j] + 1
                else:
                    j += 1
            if j >= hi:
                break
            loops.append({"kw": t.text, "kw_tok": i, "open": j, "close": br[j]})
            i += 1
            continue
        i += 1
    return loops

def find_macros(toks, br, lo, hi):
    """macro invocations name!( ... ) / name![...] / name!{...} in range"""
    res = []
    i = lo
    while i + 2 < hi:
        if toks[i].kind == "ident" and toks[i + 1].kind == "punct" and toks[i + 1].text == "!" and toks[i + 2].kind == "open" \
                and toks[i + 1].start == toks[i].end:
            res.append({"name": toks[i].text, "tok": i, "open": i + 2, "close": br[i + 2]})
        i += 1
    return res
