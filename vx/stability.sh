#!/bin/bash
# stability sweep: every unit, several Z3 seeds, a fraction of the default resource limit. A proof that only passes
# near the limit is the kind that later fails for no semantic reason; anything printed here should be restructured.
# usage: vx/stability.sh [rlimit=3] [seeds="1 2 3 4"] [units...]
cd /verif
rl=${1:-3}; seeds=${2:-"1 2 3 4"}; shift 2 2>/dev/null
units=${@:-$(ls specs/*.rs | xargs -n1 basename | sed 's/\.rs$//')}
for u in $units; do python3 vx/vx.py specs/$u.rs /repo work/$u.rs work/$u.map.json >/dev/null 2>&1; done
for u in $units; do for sd in $seeds; do
  ( verus work/$u.rs --rlimit $rl --triggers-mode silent --smt-option smt.random_seed=$sd 2>&1 | grep "Resource limit" -A4 | grep "fn \|while\|loop" | sed "s/^/UNSTABLE $u seed=$sd rlimit=$rl: /" ) &
done; wait; done
echo "sweep done"
