#!/usr/bin/env python3
# store a confirmed seeded change under /verif/seeded/<name>/ ; usage: saveseed.py <name> <prop> <srcdir> <breaks> <needs> <detected_by>
import sys,os,shutil,json
name,prop,src,breaks,needs,det=sys.argv[1:7]
d=f'/verif/seeded/{name}'; os.makedirs(d,exist_ok=True)
shutil.copy(f'{src}/patch.diff',f'{d}/patch.diff')
for f in ('demo_test.rs','demo.diff'):
    if os.path.exists(f'{src}/{f}'): shutil.copy(f'{src}/{f}',f'{d}/{f}')
if os.path.exists(f'{src}/notes.md'): shutil.copy(f'{src}/notes.md',f'{d}/agent-notes.md')
json.dump({"property":prop,"breaks":breaks,"needs":needs,"origin":"independent sub-agent","confirmed":["patch applies to /repo HEAD, crate compiles (the check's own extraction + native build ran on the patched tree)","agent's demo test fails with the patch and passes without it; existing crate tests pass (agent notes)"],"detected_by":det},open(f'{d}/meta.json','w'),indent=1)
