#!/usr/bin/env python3
"""mutant.py <unit> : run every registered breaking edit of specs/mutants/<unit>.json against a scratch overlay of the source
file (never /repo itself) and report which named obligation rejects it.   mutant.py <unit> --adhoc <file> <find> <replace>"""
import sys, os, json, shutil
sys.path.insert(0, os.path.dirname(os.path.abspath(__file__)))
import check

def run_one(unit, rel, find, repl, idx):
    root = os.path.join(check.WORK, "mut", f"{unit}_{idx}")
    shutil.rmtree(root, ignore_errors=True)
    os.makedirs(os.path.join(root, os.path.dirname(rel)), exist_ok=True)
    src = open(os.path.join(check.REPO, rel)).read()
    if src.count(find) != 1:
        return {"status": "lost", "reason": f"`{find}` occurs {src.count(find)} times in {rel}"}
    open(os.path.join(root, rel), "w").write(src.replace(find, repl))
    r = check.run_unit(unit, extra_roots=root, tag=f"_mut{idx}")
    shutil.rmtree(root, ignore_errors=True)
    out = {"status": r["status"], "reason": r.get("reason", "")[:300]}
    if r["status"] == "fail":
        known = check.load_known()
        def is_known(f):
            return any(check.match_known(known, k["property"], f) for k in known.get("findings", []) if k.get("status") == "known")
        real = [f for f in r["fails"] if not is_known(f)]
        out["killed_by"] = sorted(set(f"{f['fn']} [{f['kind']}] {(f.get('clause') or '')[:100]}" for f in real))
        if not real:
            out["status"] = "ok"   # only known findings fail: the mutant survives
    return out

def run_all(unit):
    p = os.path.join(check.VERIF, "specs", "mutants", unit + ".json")
    if not os.path.exists(p):
        return []
    res = []
    for i, m in enumerate(json.load(open(p))):
        o = run_one(unit, m["file"], m["find"], m["replace"], i)
        o["name"] = m["name"]
        if m.get("equivalent"): o["equivalent"] = m["equivalent"]
        res.append(o)
    return res

if __name__ == "__main__":
    unit = sys.argv[1]
    if len(sys.argv) > 2 and sys.argv[2] == "--adhoc":
        print(json.dumps(run_one(unit, sys.argv[3], sys.argv[4], sys.argv[5], 99), indent=1))
    else:
        for o in run_all(unit):
            print(o["name"], "->", o["status"], o.get("killed_by", o.get("reason")))
