#!/bin/bash
# run every registered check (quick tier by default) on the current tree; used before committing evidence
tier=${1:-quick}
cd "$(dirname "$(readlink -f "$0")")"
rc=0
for p in $(python3 -c "import json;print(' '.join(c['property_id'] for c in json.load(open('MANIFEST.json'))['checks']))"); do
  ./check $p $tier | tail -1 || rc=1
done
exit $rc
